//! C18 — the signature store returns every pushed pair exactly once, in the
//! shard numbered by the top `shard_bits` bits of its signature.
//!
//! Oracle: the pushed `Vec<(sig, val)>`. The model shard of a pair is computed
//! here as `sig[0] >> (64 - shard_bits)` (0 when `shard_bits == 0`), never with
//! `Sig::high_bits`. For every store (online / offline, every bucket / max
//! shard / shard bits triple, every signature and value type) the harness
//! checks `SigStore::len`, `ShardStore::len`, `shard_sizes()` against the model
//! counts and against the yielded shard lengths, and — for a first borrowed
//! iteration, a second borrowed iteration and the consuming iteration — the
//! number of shards, the placement of every pair and the per-shard multiset.
use epserde::traits::ZeroCopy;
use rand::rngs::SmallRng;
use rand::Rng;
use std::fmt::Debug;
use std::sync::Arc;
use sux::utils::{new_offline, new_online, EmptyVal, ShardStore, Sig, SigStore, SigVal};
use suxmon::obs::*;

// ---------------------------------------------------------------------------
// signature and value types

trait SigT: Sig + ZeroCopy + Send + Sync + Copy + Ord + Debug + 'static {
    const NAME: &'static str;
    fn make(w0: u64, w1: u64) -> Self;
    fn w0(&self) -> u64;
    fn show(&self) -> String;
}
impl SigT for [u64; 1] {
    const NAME: &'static str = "sig1";
    fn make(w0: u64, _w1: u64) -> Self {
        [w0]
    }
    fn w0(&self) -> u64 {
        self[0]
    }
    fn show(&self) -> String {
        format!("[{:#018x}]", self[0])
    }
}
impl SigT for [u64; 2] {
    const NAME: &'static str = "sig2";
    fn make(w0: u64, w1: u64) -> Self {
        [w0, w1]
    }
    fn w0(&self) -> u64 {
        self[0]
    }
    fn show(&self) -> String {
        format!("[{:#018x},{:#018x}]", self[0], self[1])
    }
}

trait ValT: ZeroCopy + Send + Sync + Copy + Ord + Debug + 'static {
    const NAME: &'static str;
    fn gen(rng: &mut SmallRng, idx: usize, by_index: bool) -> Self;
}
impl ValT for u8 {
    const NAME: &'static str = "u8";
    fn gen(rng: &mut SmallRng, idx: usize, by_index: bool) -> Self {
        if by_index {
            idx as u8
        } else {
            rng.random()
        }
    }
}
impl ValT for u64 {
    const NAME: &'static str = "u64";
    fn gen(rng: &mut SmallRng, idx: usize, by_index: bool) -> Self {
        if by_index {
            idx as u64
        } else {
            rng.random()
        }
    }
}
impl ValT for usize {
    const NAME: &'static str = "usize";
    fn gen(rng: &mut SmallRng, idx: usize, by_index: bool) -> Self {
        if by_index {
            idx
        } else {
            rng.random::<u64>() as usize
        }
    }
}
impl ValT for EmptyVal {
    const NAME: &'static str = "EmptyVal";
    fn gen(_rng: &mut SmallRng, _idx: usize, _by_index: bool) -> Self {
        EmptyVal::default()
    }
}

const NUM_TYPES: usize = 8;
const TYPE_NAMES: [&str; NUM_TYPES] = [
    "sig2/u64", "sig2/u8", "sig1/usize", "sig2/EmptyVal", "sig1/u8", "sig1/u64", "sig2/usize", "sig1/EmptyVal",
];

// ---------------------------------------------------------------------------
// configurations and multisets

#[derive(Clone, Copy, Debug)]
struct Cfg {
    online: bool,
    bb: u32,
    mb: u32,
    sb: u32,
}

impl Cfg {
    fn mode(&self) -> &'static str {
        if self.online {
            "online"
        } else {
            "offline"
        }
    }
    /// Which branch of the shard iterator the triple selects.
    fn rel(&self) -> &'static str {
        if self.sb > self.bb {
            "split"
        } else if self.sb == self.bb {
            "equal"
        } else {
            "aggregate"
        }
    }
    fn show(&self) -> String {
        format!(
            "new_{}(buckets_high_bits={}, max_shard_high_bits={}, None).into_shard_store({})",
            self.mode(),
            self.bb,
            self.mb,
            self.sb
        )
    }
}

#[derive(Clone, Copy, Debug, PartialEq)]
enum Kind {
    Empty,
    Single,
    Tiny,
    Uniform,
    OneShard,
    ZeroHigh,
    OnesHigh,
    Dups,
    /// some buckets hold exactly k*1024 + delta pairs
    Mult1024(i32),
    Skewed,
    Boundaries,
}

impl Kind {
    fn name(&self) -> String {
        match self {
            Kind::Empty => "empty".into(),
            Kind::Single => "single".into(),
            Kind::Tiny => "tiny".into(),
            Kind::Uniform => "uniform".into(),
            Kind::OneShard => "one-shard".into(),
            Kind::ZeroHigh => "zero-high-bits".into(),
            Kind::OnesHigh => "ones-high-bits".into(),
            Kind::Dups => "duplicates".into(),
            Kind::Mult1024(0) => "bucket-mult1024".into(),
            Kind::Mult1024(d) if *d < 0 => "bucket-mult1024-minus1".into(),
            Kind::Mult1024(_) => "bucket-mult1024-plus1".into(),
            Kind::Skewed => "skewed".into(),
            Kind::Boundaries => "shard-boundaries".into(),
        }
    }
}

const KINDS: [Kind; 13] = [
    Kind::Empty,
    Kind::Single,
    Kind::Tiny,
    Kind::Uniform,
    Kind::OneShard,
    Kind::ZeroHigh,
    Kind::OnesHigh,
    Kind::Dups,
    Kind::Mult1024(0),
    Kind::Mult1024(-1),
    Kind::Mult1024(1),
    Kind::Skewed,
    Kind::Boundaries,
];

/// `bits` top bits set to `prefix`, the rest taken from `low`.
fn with_prefix(prefix: u64, bits: u32, low: u64) -> u64 {
    if bits == 0 {
        low
    } else {
        (prefix << (64 - bits)) | (low & (u64::MAX >> bits))
    }
}

/// Generates the first signature words of a multiset. Returns the words and a
/// short human-readable recipe.
fn gen_words(rng: &mut SmallRng, kind: Kind, cfg: &Cfg, n: usize, k1024: usize) -> (Vec<u64>, String) {
    let mut w: Vec<u64> = Vec::new();
    let recipe;
    match kind {
        Kind::Empty => recipe = "no pairs".to_string(),
        Kind::Single => {
            let x = match rng.random_range(0..5) {
                0 => 0,
                1 => u64::MAX,
                2 => 1 << 63,
                _ => rng.random(),
            };
            w.push(x);
            recipe = "one pair".to_string();
        }
        Kind::Tiny => {
            let m = rng.random_range(2..40usize);
            for _ in 0..m {
                w.push(rng.random());
            }
            recipe = format!("{} uniformly random signatures", m);
        }
        Kind::Uniform => {
            for _ in 0..n {
                w.push(rng.random());
            }
            recipe = format!("{} uniformly random signatures", n);
        }
        Kind::OneShard => {
            let p: u64 = rng.random_range(0..1u64 << 16);
            for _ in 0..n {
                w.push(with_prefix(p, 16, rng.random()));
            }
            recipe = format!("{} signatures sharing the top 16 bits {:#06x}, random below", n, p);
        }
        Kind::ZeroHigh => {
            for _ in 0..n {
                w.push(with_prefix(0, 16, rng.random()));
            }
            recipe = format!("{} signatures with the top 16 bits zero, random below", n);
        }
        Kind::OnesHigh => {
            for _ in 0..n {
                w.push(with_prefix(0xffff, 16, rng.random()));
            }
            recipe = format!("{} signatures with the top 16 bits one, random below", n);
        }
        Kind::Dups => {
            let d = rng.random_range(1..=8usize);
            let base: Vec<u64> = (0..d).map(|_| rng.random()).collect();
            for _ in 0..n.min(3000) {
                w.push(base[rng.random_range(0..d)]);
            }
            recipe = format!("{} pairs drawn from {} distinct signatures {:x?}", w.len(), d, base);
        }
        Kind::Mult1024(delta) => {
            // a few buckets get exactly k*1024 + delta pairs; the low bits are
            // random so that a bucket spreads over all the shards it contains
            let nb = 1u64 << cfg.bb;
            let mut buckets = vec![0u64, nb - 1, rng.random_range(0..nb)];
            buckets.sort();
            buckets.dedup();
            let mut desc = Vec::new();
            for (j, &b) in buckets.iter().enumerate() {
                let k = (k1024 + j) % 3 + 1;
                let cnt = (k * 1024) as i64 + delta as i64;
                for _ in 0..cnt {
                    w.push(with_prefix(b, cfg.bb, rng.random()));
                }
                desc.push(format!("bucket {}: {} pairs", b, cnt));
            }
            // optional noise in other buckets
            let noise = if nb > 3 && rng.random_bool(0.5) { rng.random_range(1..50usize) } else { 0 };
            for _ in 0..noise {
                let b = loop {
                    let b = rng.random_range(0..nb);
                    if !buckets.contains(&b) {
                        break b;
                    }
                };
                w.push(with_prefix(b, cfg.bb, rng.random()));
            }
            // pushes arrive in random order
            for i in (1..w.len()).rev() {
                let j = rng.random_range(0..=i);
                w.swap(i, j);
            }
            recipe = format!(
                "buckets (top {} bits) filled with random low bits: {}; {} more pairs in other buckets; shuffled",
                cfg.bb,
                desc.join(", "),
                noise
            );
        }
        Kind::Skewed => {
            let g = cfg.bb.max(cfg.sb).max(1);
            let p = rng.random_range(0..1u64 << g);
            for _ in 0..n {
                if rng.random_bool(0.5) {
                    w.push(with_prefix(p, g, rng.random()));
                } else {
                    w.push(rng.random());
                }
            }
            recipe = format!("{} signatures, half with the top {} bits = {}, half uniform", n, g, p);
        }
        Kind::Boundaries => {
            // lowest / highest signatures of shards and buckets
            for g in [cfg.sb, cfg.bb, cfg.mb] {
                if g == 0 {
                    continue;
                }
                let total = 1u64 << g;
                let prefixes: Vec<u64> = if total <= 256 {
                    (0..total).collect()
                } else {
                    let mut v: Vec<u64> = (0..250).map(|_| rng.random_range(0..total)).collect();
                    v.extend([0, 1, total / 2 - 1, total / 2, total - 2, total - 1]);
                    v
                };
                for p in prefixes {
                    let lo = with_prefix(p, g, 0);
                    let hi = with_prefix(p, g, u64::MAX);
                    w.extend([lo, hi, lo + 1, hi - 1]);
                }
            }
            w.extend([0, 1, u64::MAX, u64::MAX - 1, 1 << 63, (1 << 63) - 1, 1 << 32, u32::MAX as u64]);
            for i in (1..w.len()).rev() {
                let j = rng.random_range(0..=i);
                w.swap(i, j);
            }
            recipe = format!(
                "{} signatures: lowest, lowest+1, highest-1, highest value of shards/buckets at {} / {} / {} bits, plus 0, 1, MAX, MAX-1, 2^63, 2^63-1, 2^32, 2^32-1; shuffled",
                w.len(),
                cfg.sb,
                cfg.bb,
                cfg.mb
            );
        }
    }
    (w, recipe)
}

fn gen_pairs<S: SigT, V: ValT>(rng: &mut SmallRng, kind: Kind, cfg: &Cfg, n: usize, k1024: usize) -> (Vec<(S, V)>, String) {
    let (words, recipe) = gen_words(rng, kind, cfg, n, k1024);
    let by_index = rng.random_bool(0.3);
    let w1_mode = rng.random_range(0..4);
    let pairs = words
        .iter()
        .enumerate()
        .map(|(i, &w0)| {
            let w1 = match w1_mode {
                0 => !w0,             // second word with the opposite high bits
                1 => [0, u64::MAX][i % 2],
                _ => rng.random(),
            };
            (S::make(w0, w1), V::gen(rng, i, by_index))
        })
        .collect();
    (
        pairs,
        format!(
            "{}; second word (if any): {}; values: {}",
            recipe,
            ["complement of the first", "alternating 0 / MAX", "random", "random"][w1_mode],
            if by_index { "push index" } else { "random" }
        ),
    )
}

// ---------------------------------------------------------------------------
// the monitor

#[derive(Clone, Copy, Debug, PartialEq)]
enum Plan {
    /// borrowed, borrowed, consuming
    Full,
    /// a borrowed iteration abandoned after some shards, then Full
    PartialFirst,
    /// consuming iteration on a fresh shard store
    ConsumeOnly,
    /// borrowed, consuming
    BorrowConsume,
}

impl Plan {
    fn suffix(&self) -> &'static str {
        match self {
            Plan::Full => "",
            Plan::PartialFirst => "/partial-first",
            Plan::ConsumeOnly => "/consume-only",
            Plan::BorrowConsume => "/borrow-consume",
        }
    }
}

fn model_shard(w0: u64, sb: u32) -> usize {
    if sb == 0 {
        0
    } else {
        (w0 >> (64 - sb)) as usize
    }
}

fn collect_shards<S: SigT, V: ValT>(it: impl Iterator<Item = Arc<Vec<SigVal<S, V>>>>, limit: usize) -> Vec<Vec<(S, V)>> {
    let mut out = Vec::new();
    if limit == 0 {
        // create the iterator and abandon it at once
        drop(it);
        return out;
    }
    for shard in it {
        out.push(shard.iter().map(|sv| (sv.sig, sv.val)).collect());
        if out.len() >= limit {
            break;
        }
    }
    out
}

fn show_pair<S: SigT, V: ValT>(p: &(S, V)) -> String {
    format!("({}, {:?})", p.0.show(), p.1)
}

/// First element of sorted `a` that is not matched in sorted `b` (multiset difference).
fn first_unmatched<'a, T: Ord>(a: &'a [T], b: &[T]) -> Option<&'a T> {
    let (mut i, mut j) = (0, 0);
    while i < a.len() {
        if j >= b.len() {
            return Some(&a[i]);
        }
        match a[i].cmp(&b[j]) {
            std::cmp::Ordering::Equal => {
                i += 1;
                j += 1;
            }
            std::cmp::Ordering::Less => return Some(&a[i]),
            std::cmp::Ordering::Greater => j += 1,
        }
    }
    None
}

/// Compares the shards yielded by one iteration with the model.
/// `got` may be a prefix when `partial` is set.
#[allow(clippy::too_many_arguments)]
fn check_iteration<S: SigT, V: ValT>(
    c: &mut Case,
    op: &str,
    cfg: &Cfg,
    got: &[Vec<(S, V)>],
    model: &[Vec<(S, V)>],
    all_sorted: &[(S, V)],
    reported_sizes: &[usize],
    partial: bool,
    ctx: &dyn Fn() -> String,
) {
    let want_shards = 1usize << cfg.sb;
    if !partial {
        c.check(op, got.len() == want_shards, || {
            format!("{}: yielded {} shards, expected 2^{} = {}; {}", op, got.len(), cfg.sb, want_shards, ctx())
        });
    } else {
        c.check(op, got.len() <= want_shards, || {
            format!("{}: a prefix of the iteration already has {} shards, more than 2^{}; {}", op, got.len(), cfg.sb, ctx())
        });
    }
    let mut placement_reported = false;
    let mut content_reported = false;
    let mut size_reported = false;
    for (i, shard) in got.iter().enumerate() {
        // placement
        if !placement_reported {
            if let Some(p) = shard.iter().find(|p| model_shard(p.0.w0(), cfg.sb) != i) {
                placement_reported = true;
                c.fail(
                    op,
                    "mismatch",
                    "pair in the wrong shard",
                    &format!(
                        "{}: shard {} contains {} whose top {} bits are {}; {}",
                        op,
                        i,
                        show_pair(p),
                        cfg.sb,
                        model_shard(p.0.w0(), cfg.sb),
                        ctx()
                    ),
                );
            }
        }
        c.tick(shard.len() as u64);
        // shard_sizes()[i] equals the actual length
        if !size_reported && i < reported_sizes.len() && reported_sizes[i] != shard.len() {
            size_reported = true;
            c.fail(
                "shard_sizes",
                "mismatch",
                "shard_sizes differs from the yielded shard length",
                &format!("shard_sizes()[{}] = {} but {} yielded a shard of {} pairs there; {}", i, reported_sizes[i], op, shard.len(), ctx()),
            );
        }
        c.tick(1);
        // multiset
        if !content_reported && i < model.len() {
            let mut s = shard.clone();
            s.sort();
            if s != model[i] {
                content_reported = true;
                let missing = first_unmatched(&model[i], &s).map(show_pair);
                let extra = first_unmatched(&s, &model[i]).map(show_pair);
                c.fail(
                    op,
                    "mismatch",
                    "shard contents differ from the pushed pairs",
                    &format!(
                        "{}: shard {} has {} pairs, the pushed multiset has {} pairs with these top bits; first pushed pair not returned: {:?}; first returned pair not pushed (or returned too often): {:?}; {}",
                        op,
                        i,
                        s.len(),
                        model[i].len(),
                        missing,
                        extra,
                        ctx()
                    ),
                );
            }
            c.tick(1);
        }
    }
    if !partial {
        // union = pushed multiset (also meaningful when the number of shards is wrong)
        let mut all: Vec<(S, V)> = got.iter().flatten().copied().collect();
        all.sort();
        let ok = all == all_sorted;
        c.check(op, ok, || {
            let missing = first_unmatched(all_sorted, &all).map(show_pair);
            let extra = first_unmatched(&all, all_sorted).map(show_pair);
            format!(
                "{}: the union of the shards has {} pairs, {} were pushed; first lost pair: {:?}; first spurious/duplicated pair: {:?}; {}",
                op,
                all.len(),
                all_sorted.len(),
                missing,
                extra,
                ctx()
            )
        });
    }
}

fn exercise<S: SigT, V: ValT, St: SigStore<S, V>>(c: &mut Case, mut store: St, cfg: &Cfg, pairs: &[(S, V)], plan: Plan, recipe: &str) {
    let ctx = || format!("{} after {} pushes ({})", cfg.show(), pairs.len(), trunc(recipe, 400));
    // push
    c.check("sig_store_len", store.len() == 0, || format!("fresh store has len {}; {}", store.len(), ctx()));
    let probe = if pairs.is_empty() { 0 } else { c.rng().random_range(0..pairs.len()) };
    for (i, &(sig, val)) in pairs.iter().enumerate() {
        if let Err(e) = store.try_push(SigVal { sig, val }) {
            c.fail("try_push", "io-error", &format!("{}", e), &format!("try_push #{} failed: {}; {}", i, e, ctx()));
            return;
        }
        if i == probe {
            c.check("sig_store_len", store.len() == i + 1, || format!("SigStore::len() = {} after {} pushes; {}", store.len(), i + 1, ctx()));
        }
    }
    c.check("sig_store_len", store.len() == pairs.len(), || format!("SigStore::len() = {} after {} pushes; {}", store.len(), pairs.len(), ctx()));

    // model
    let ns = 1usize << cfg.sb;
    let mut model: Vec<Vec<(S, V)>> = vec![Vec::new(); ns];
    for p in pairs {
        model[model_shard(p.0.w0(), cfg.sb)].push(*p);
    }
    for m in model.iter_mut() {
        m.sort();
    }
    let mut all_sorted = pairs.to_vec();
    all_sorted.sort();

    let sb = cfg.sb;
    let mut shard_store = match c.guard("into_shard_store", move || store.into_shard_store(sb)) {
        None => return,
        Some(Err(e)) => {
            c.fail("into_shard_store", "io-error", &format!("{}", e), &format!("into_shard_store failed: {}; {}", e, ctx()));
            return;
        }
        Some(Ok(s)) => s,
    };

    // sizes
    let sizes: Vec<usize> = shard_store.shard_sizes().to_vec();
    c.check("shard_sizes", sizes.len() == ns, || format!("shard_sizes() has {} entries, expected 2^{}; {}", sizes.len(), cfg.sb, ctx()));
    if sizes.len() == ns {
        if let Some(i) = (0..ns).find(|&i| sizes[i] != model[i].len()) {
            c.fail(
                "shard_sizes",
                "mismatch",
                "shard_sizes differs from the pushed counts",
                &format!("shard_sizes()[{}] = {} but {} pushed pairs have top {} bits = {}; {}", i, sizes[i], model[i].len(), cfg.sb, i, ctx()),
            );
        }
        c.tick(ns as u64);
    }
    c.check("shard_store_len", shard_store.len() == pairs.len(), || {
        format!("ShardStore::len() = {} after {} pushes; {}", shard_store.len(), pairs.len(), ctx())
    });

    let mut borrowed_runs: Vec<Vec<Vec<(S, V)>>> = Vec::new();
    if plan == Plan::PartialFirst {
        let k = if ns <= 1 { 0 } else { c.rng().random_range(1..ns) };
        if let Some(got) = c.guard("iter_partial", || collect_shards(shard_store.iter(), k)) {
            if k > 0 {
                c.check("iter_partial", got.len() == k, || format!("iter_partial: wanted the first {} shards, the iterator ended after {}; {}", k, got.len(), ctx()));
                check_iteration(c, "iter_partial", cfg, &got, &model, &all_sorted, &sizes, true, &ctx);
            }
        }
    }
    let n_borrowed = match plan {
        Plan::Full | Plan::PartialFirst => 2,
        Plan::BorrowConsume => 1,
        Plan::ConsumeOnly => 0,
    };
    for (r, op) in ["iter_first", "iter_second"].iter().enumerate().take(n_borrowed) {
        if let Some(got) = c.guard(op, || collect_shards(shard_store.iter(), usize::MAX)) {
            check_iteration(c, op, cfg, &got, &model, &all_sorted, &sizes, false, &ctx);
            borrowed_runs.push(got);
        }
        // sizes must not change by iterating
        let again = shard_store.shard_sizes().to_vec();
        c.check("shard_sizes", again == sizes, || format!("shard_sizes() changed after borrowed iteration #{}; {}", r + 1, ctx()));
    }
    if borrowed_runs.len() == 2 {
        // the two borrowed iterations agree shard by shard (as multisets)
        let a: Vec<Vec<(S, V)>> = borrowed_runs[0].iter().map(|s| { let mut s = s.clone(); s.sort(); s }).collect();
        let b: Vec<Vec<(S, V)>> = borrowed_runs[1].iter().map(|s| { let mut s = s.clone(); s.sort(); s }).collect();
        c.check("iter_second", a == b, || {
            let i = (0..a.len().min(b.len())).find(|&i| a[i] != b[i]);
            format!(
                "two borrowed iterations disagree: {} vs {} shards, first differing shard {:?} ({} vs {} pairs); {}",
                a.len(),
                b.len(),
                i,
                i.map(|i| a[i].len()).unwrap_or(0),
                i.map(|i| b[i].len()).unwrap_or(0),
                ctx()
            )
        });
    }
    // the borrowed iterator through the skipping adaptors of Iterator (nth after some next
    // calls, skip, step_by): the shards reached this way are those of a plain iteration
    if let Some(first) = borrowed_runs.first() {
        let norm = |s: &Vec<(S, V)>| -> Vec<(S, V)> {
            let mut s = s.clone();
            s.sort();
            s
        };
        let plain: Vec<Vec<(S, V)>> = first.iter().map(norm).collect();
        let nsh = plain.len();
        let pre = c.rng().random_range(0..3usize).min(nsh);
        let k = c.rng().random_range(0..4usize);
        let step = c.rng().random_range(1..4usize);
        let sk = c.rng().random_range(0..nsh + 2);
        if let Some((a, b, d)) = c.guard("iter_skipping", || {
            let a: Option<Vec<(S, V)>> = {
                let mut it = shard_store.iter();
                for _ in 0..pre {
                    it.next();
                }
                it.nth(k).map(|s| s.iter().map(|sv| (sv.sig, sv.val)).collect())
            };
            let b: Vec<Vec<(S, V)>> = shard_store.iter().step_by(step).take(nsh + 2).map(|s| s.iter().map(|sv| (sv.sig, sv.val)).collect()).collect();
            let d: Vec<Vec<(S, V)>> = shard_store.iter().skip(sk).take(nsh + 2).map(|s| s.iter().map(|sv| (sv.sig, sv.val)).collect()).collect();
            (a, b, d)
        }) {
            c.check("iter_skipping", a.as_ref().map(norm) == plain.get(pre + k).cloned(), || {
                format!("{} next() calls then nth({}) gives a shard of {:?} pairs, a plain iteration has {:?} pairs in shard {}; {}", pre, k, a.as_ref().map(|x| x.len()), plain.get(pre + k).map(|x| x.len()), pre + k, ctx())
            });
            let want: Vec<Vec<(S, V)>> = plain.iter().step_by(step).cloned().collect();
            c.check("iter_skipping", b.iter().map(norm).collect::<Vec<_>>() == want, || format!("iter().step_by({}) yields {} shards of sizes {:?}, a plain iteration stepped by hand {:?}; {}", step, b.len(), b.iter().map(|x| x.len()).collect::<Vec<_>>(), want.iter().map(|x| x.len()).collect::<Vec<_>>(), ctx()));
            let want: Vec<Vec<(S, V)>> = plain.iter().skip(sk).cloned().collect();
            c.check("iter_skipping", d.iter().map(norm).collect::<Vec<_>>() == want, || format!("iter().skip({}) yields {} shards of sizes {:?}, expected {:?}; {}", sk, d.len(), d.iter().map(|x| x.len()).collect::<Vec<_>>(), want.iter().map(|x| x.len()).collect::<Vec<_>>(), ctx()));
        }
    }
    let consumed = c.guard("into_iter", move || collect_shards(shard_store.into_iter(), usize::MAX));
    if let Some(got) = consumed {
        check_iteration(c, "into_iter", cfg, &got, &model, &all_sorted, &sizes, false, &ctx);
        if let Some(first) = borrowed_runs.first() {
            let a: Vec<Vec<(S, V)>> = first.iter().map(|s| { let mut s = s.clone(); s.sort(); s }).collect();
            let b: Vec<Vec<(S, V)>> = got.iter().map(|s| { let mut s = s.clone(); s.sort(); s }).collect();
            c.check("into_iter", a == b, || {
                let i = (0..a.len().min(b.len())).find(|&i| a[i] != b[i]);
                format!("borrowed and consuming iteration disagree: {} vs {} shards, first differing shard {:?}; {}", a.len(), b.len(), i, ctx())
            });
        }
    }
}

/// (memory-backed directory, original TMPDIR) if the former exists.
fn tmp_dirs() -> Option<(&'static str, Option<&'static str>)> {
    use std::sync::OnceLock;
    static DIRS: OnceLock<Option<(&'static str, Option<&'static str>)>> = OnceLock::new();
    *DIRS.get_or_init(|| {
        let default: Option<&'static str> = std::env::var("TMPDIR").ok().map(|s| &*Box::leak(s.into_boxed_str()));
        let fast = "/dev/shm";
        let usable = !cfg!(miri) && std::fs::metadata(fast).map(|m| m.is_dir()).unwrap_or(false) && tempfile::TempDir::new_in(fast).is_ok();
        if usable {
            Some((fast, default))
        } else {
            None
        }
    })
}

#[allow(clippy::too_many_arguments)]
fn run_typed<S: SigT, V: ValT>(c: &mut Case, cfg: &Cfg, kind: Kind, n: usize, k1024: usize, plan: Plan) {
    let (pairs, recipe): (Vec<(S, V)>, String) = gen_pairs(c.rng(), kind, cfg, n, k1024);
    if cfg.online {
        // the builder passes the expected number of keys when it knows it
        let hint = match c.rng().random_range(0..3) {
            0 => None,
            1 => Some(pairs.len()),
            _ => Some(pairs.len() / 2),
        };
        match new_online::<S, V>(cfg.bb, cfg.mb, hint) {
            Ok(store) => exercise(c, store, cfg, &pairs, plan, &recipe),
            Err(e) => c.fail("new_online", "io-error", &format!("{}", e), &cfg.show()),
        }
    } else {
        // Creating thousands of bucket files is very slow on the sandbox's disk:
        // stores with many buckets go to the memory-backed file system when
        // there is one, stores with up to 32 buckets stay on the default
        // temporary directory (a real disk).
        if let Some((fast, default)) = tmp_dirs() {
            match (cfg.bb > 5, default) {
                (true, _) => std::env::set_var("TMPDIR", fast),
                (false, Some(d)) => std::env::set_var("TMPDIR", d),
                (false, None) => std::env::remove_var("TMPDIR"),
            }
        }
        match new_offline::<S, V>(cfg.bb, cfg.mb, None) {
            Ok(store) => exercise(c, store, cfg, &pairs, plan, &recipe),
            Err(e) => c.fail("new_offline", "io-error", &format!("{}", e), &cfg.show()),
        }
    }
    if !pairs.is_empty() {
        c.nontrivial();
    }
    c.describe(|| {
        let shown: Vec<String> = pairs.iter().take(if pairs.len() <= 5000 { 5000 } else { 64 }).map(show_pair).collect();
        format!(
            "{} with SigVal<{}, {}>; plan {:?}; {} pairs: {}; pushed (first {}): {}",
            cfg.show(),
            S::NAME,
            V::NAME,
            plan,
            pairs.len(),
            recipe,
            shown.len(),
            shown.join(" ")
        )
    });
}

fn run(c: &mut Case, ty: usize, cfg: &Cfg, kind: Kind, n: usize, k1024: usize, plan: Plan) {
    match ty % NUM_TYPES {
        0 => run_typed::<[u64; 2], u64>(c, cfg, kind, n, k1024, plan),
        1 => run_typed::<[u64; 2], u8>(c, cfg, kind, n, k1024, plan),
        2 => run_typed::<[u64; 1], usize>(c, cfg, kind, n, k1024, plan),
        3 => run_typed::<[u64; 2], EmptyVal>(c, cfg, kind, n, k1024, plan),
        4 => run_typed::<[u64; 1], u8>(c, cfg, kind, n, k1024, plan),
        5 => run_typed::<[u64; 1], u64>(c, cfg, kind, n, k1024, plan),
        6 => run_typed::<[u64; 2], usize>(c, cfg, kind, n, k1024, plan),
        _ => run_typed::<[u64; 1], EmptyVal>(c, cfg, kind, n, k1024, plan),
    }
}

fn do_case(ctx: &mut Ctx, ty: usize, cfg: Cfg, kind: Kind, n: usize, k1024: usize, plan: Plan) {
    let variant = format!("{}/{}", cfg.mode(), TYPE_NAMES[ty % NUM_TYPES]);
    let stratum = format!("{}/{}{}", cfg.rel(), kind.name(), plan.suffix());
    ctx.case(&variant, &stratum, "store_roundtrip", |c| {
        c.set_cell(format!("{}|b{}m{}s{}|{}{}|{}", cfg.mode(), cfg.bb, cfg.mb, cfg.sb, kind.name(), plan.suffix(), TYPE_NAMES[ty % NUM_TYPES]));
        run(c, ty, &cfg, kind, n, k1024, plan);
    });
}

fn main() {
    let mut ctx = Ctx::from_args("C18");
    ctx.set_hang_limit(300);
    let miri = cfg!(miri) || ctx.build == "MIRI";
    let vg = ctx.build == "VG";

    // bit triples: (bucket bits, max shard bits, shard bits), shard <= max
    let bit_values: Vec<u32> = if ctx.small { vec![0, 1, 2, 5] } else { vec![0, 1, 2, 5, 8, 9, 12] };
    let mut triples: Vec<(u32, u32, u32)> = Vec::new();
    for &bb in &bit_values {
        for &mb in &bit_values {
            for &sb in &bit_values {
                if sb <= mb {
                    triples.push((bb, mb, sb));
                }
            }
        }
    }
    if !ctx.small {
        // what VBuilder does: max shard bits 16, bucket bits 8 (default) or equal to the shard bits
        for sb in [0u32, 1, 3, 6, 8, 10] {
            triples.push((8, 16, sb));
            triples.push((sb, 16, sb));
        }
    }
    let modes: Vec<bool> = if miri {
        vec![true]
    } else if vg {
        vec![false, true]
    } else {
        vec![true, false]
    };
    let n_uniform = ctx.scale(if miri { 60 } else { 300 }, 10_000, 20_000);
    let n_skew = ctx.scale(if miri { 60 } else { 300 }, 4_000, 6_000);

    // 1. deterministic strata: every triple x mode x multiset kind, type combination rotating
    //    (thorough: every type combination)
    let mut idx = 0usize;
    for (ti, &(bb, mb, sb)) in triples.iter().enumerate() {
        for &online in &modes {
            let cfg = Cfg { online, bb, mb, sb };
            for (ki, &kind) in KINDS.iter().enumerate() {
                if ctx.small && matches!(kind, Kind::Mult1024(_)) && (miri || (ti + ki) % 4 != 0) {
                    // thousands of pairs per case: too slow under Miri; a quarter of them under valgrind
                    continue;
                }
                let n = match kind {
                    Kind::Uniform => n_uniform,
                    _ => n_skew,
                };
                // quick: one type combination per cell, rotating; thorough: two (all eight
                // combinations meet every triple and every kind several times over)
                let type_range = if ctx.thorough() && !ctx.small { 0..2 } else { 0..1 };
                for t in type_range {
                    let ty = ti + ki * 3 + online as usize * 5 + t * 4 + t * (ti % 2);
                    do_case(&mut ctx, ty, cfg, kind, n, idx, Plan::Full);
                    idx += 1;
                }
            }
        }
    }

    // 1b. 10^5 uniform pairs: the VBuilder-like configurations and one triple per
    //     iterator branch in quick, every triple in thorough
    if !ctx.small {
        for (ti, &(bb, mb, sb)) in triples.iter().enumerate() {
            let sel = ctx.thorough() || mb == 16 || [(0, 12, 12), (12, 12, 0), (9, 9, 9), (2, 9, 8), (8, 5, 1), (5, 12, 9)].contains(&(bb, mb, sb));
            if !sel {
                continue;
            }
            for &online in &modes {
                do_case(&mut ctx, ti + online as usize, Cfg { online, bb, mb, sb }, Kind::Uniform, 100_000, idx, Plan::Full);
                idx += 1;
            }
        }
    }

    // 2. other iteration plans on the kinds that fill the buckets
    for (ti, &(bb, mb, sb)) in triples.iter().enumerate() {
        for &online in &modes {
            let cfg = Cfg { online, bb, mb, sb };
            for (pi, plan) in [Plan::PartialFirst, Plan::ConsumeOnly, Plan::BorrowConsume].into_iter().enumerate() {
                for (ki, kind) in [Kind::Uniform, Kind::Mult1024(0), Kind::Boundaries].into_iter().enumerate() {
                    if (ctx.small && kind == Kind::Mult1024(0)) || (miri && kind == Kind::Boundaries) {
                        continue;
                    }
                    let ty = ti + pi + ki * 2 + online as usize * 3;
                    do_case(&mut ctx, ty, cfg, kind, n_skew, idx, plan);
                    idx += 1;
                }
            }
        }
    }

    // 3. random rounds
    let rounds = ctx.scale(if miri { 20 } else { 60 }, 30_000, 400_000);
    let mut rng = ctx.rng(18);
    let max_bits = if ctx.small { 6 } else { 12 };
    for _ in 0..rounds {
        let bb = rng.random_range(0..=max_bits);
        let mb = if !ctx.small && rng.random_bool(0.1) { 16 } else { rng.random_range(0..=max_bits) };
        let sb = rng.random_range(0..=mb.min(max_bits));
        let online = if modes.len() == 1 { modes[0] } else { rng.random_bool(0.5) };
        let kind = if ctx.small {
            [Kind::Tiny, Kind::Single, Kind::Dups, Kind::Boundaries, Kind::Skewed][rng.random_range(0..5)]
        } else {
            KINDS[rng.random_range(0..KINDS.len())]
        };
        let plan = match rng.random_range(0..10) {
            0 => Plan::PartialFirst,
            1 => Plan::ConsumeOnly,
            2 => Plan::BorrowConsume,
            _ => Plan::Full,
        };
        let n = if ctx.small { rng.random_range(2..100) } else { rng.random_range(2..3000) };
        let ty = rng.random_range(0..NUM_TYPES);
        let k = rng.random_range(0..3);
        do_case(&mut ctx, ty, Cfg { online, bb, mb, sb }, kind, n, k, plan);
        if ctx.out_of_time() {
            break;
        }
    }
    ctx.finish();
}
