//! C07 — a built static function returns the stored value for every key, in
//! any configuration, and the build terminates.
//!
//! Oracle: the generated (key, value) list. Keys are an injective function of
//! an index (distinct by construction), values a function of the index; after
//! every `Ok` build `len()` and *all* pairs are checked (`get`, and
//! `get_unaligned` where its documented precondition on the bit width holds).
//! "Terminates" is restated as bounded progress: the key and value lenders are
//! wrapped in a `ProbeLender` that counts `rewind` calls (= failed attempts)
//! and refuses the 65th, which makes the build stop with a tagged error that
//! is reported as kind `no-progress`. `Err` on distinct keys and panics are
//! violations too.
use dsi_progress_logger::no_logging;
use rand::rngs::SmallRng;
use rand::Rng;
use std::cell::Cell;
use std::fmt::Debug;
use sux::bits::BitFieldVec;
use sux::func::shard_edge::{FuseLge3FullSigs, FuseLge3NoShards, FuseLge3Shards};
use sux::func::VBuilder;
use suxmon::obs::*;

#[macro_use]
#[path = "common/vb.rs"]
mod vb;
use vb::*;

// ---------------------------------------------------------------------------
// words

trait Wd: Copy + PartialEq + Debug + Default + 'static {
    const BITS: u32;
    fn from_u64(x: u64) -> Self;
    fn to_u64(self) -> u64;
}
macro_rules! impl_wd {
    ($($t:ty),*) => {$(impl Wd for $t {
        const BITS: u32 = <$t>::BITS;
        fn from_u64(x: u64) -> Self { x as $t }
        fn to_u64(self) -> u64 { self as u64 }
    })*};
}
impl_wd!(u8, u16, u32, u64, usize);

fn mask(w: u32) -> u64 {
    if w >= 64 {
        u64::MAX
    } else {
        (1u64 << w) - 1
    }
}

// ---------------------------------------------------------------------------
// scenarios

#[derive(Clone, Copy, Debug, PartialEq)]
enum ValKind {
    /// v_i = i (truncated to the word)
    Identity,
    /// all values 0: bit width 0
    Zero,
    /// all values W::MAX
    AllOnes,
    /// pseudo-random values of the given width (clipped to the word)
    Random(u32),
    /// values of width <= w-2 except one value of width exactly w at the first (0), middle (1) or last (2) position
    SparseMax(u8, u32),
}

impl ValKind {
    fn name(&self) -> String {
        match self {
            ValKind::Identity => "identity".into(),
            ValKind::Zero => "zero(width0)".into(),
            ValKind::AllOnes => "allones".into(),
            ValKind::Random(_) => "random-width".into(),
            ValKind::SparseMax(p, _) => format!("max-at-{}", ["first", "middle", "last"][*p as usize % 3]),
        }
    }
}

#[derive(Clone, Debug)]
struct Scn {
    n: usize,
    /// index of the key generator inside the key family of the variant
    kk: usize,
    vals: ValKind,
    cfg: Cfg,
    salt: u64,
    nonmembers: usize,
    /// name of the stratum group this scenario comes from
    group: &'static str,
}

impl Scn {
    fn val(&self, i: usize, bits: u32) -> u64 {
        match self.vals {
            ValKind::Identity => i as u64 & mask(bits),
            ValKind::Zero => 0,
            ValKind::AllOnes => mask(bits),
            ValKind::Random(w) => bij64(i as u64, self.salt ^ 0x5555) & mask(w.min(bits)),
            ValKind::SparseMax(p, w) => {
                let w = w.min(bits).max(1);
                let pos = match p % 3 {
                    0 => 0,
                    1 => self.n / 2,
                    _ => self.n.saturating_sub(1),
                };
                if i == pos {
                    mask(w)
                } else {
                    bij64(i as u64, self.salt ^ 0x3333) & mask(w.saturating_sub(2))
                }
            }
        }
    }
    fn stratum(&self) -> String {
        format!("{}|{}|hint={}|vals={}|{}", self.group, n_class(self.n), self.cfg.hint.name(), self.vals.name(), self.cfg.store())
    }
}

// ---------------------------------------------------------------------------
// key storages (one per key type); duck-typed: make / src / q / show

struct KUsize {
    kind: IntKeys,
    salt: u64,
    n: usize,
}
impl KUsize {
    const FAM: &'static str = "usize";
    fn make(s: &Scn) -> Self {
        KUsize { kind: IntKeys::ALL[s.kk % 4], salt: s.salt, n: s.n }
    }
    fn src(&self) -> FnSrc<usize, impl Fn(usize) -> usize + '_> {
        FnSrc::new(self.n, move |i| self.kind.key(i, self.salt) as usize)
    }
    fn q(&self, i: usize) -> usize {
        self.kind.key(i, self.salt) as usize
    }
    fn show(&self, i: usize) -> String {
        format!("{}usize", self.q(i))
    }
    fn kind(&self) -> String {
        format!("usize:{}", self.kind.name())
    }
}

struct KU64 {
    kind: IntKeys,
    salt: u64,
    n: usize,
}
impl KU64 {
    const FAM: &'static str = "u64";
    fn make(s: &Scn) -> Self {
        KU64 { kind: IntKeys::ALL[s.kk % 4], salt: s.salt, n: s.n }
    }
    fn src(&self) -> FnSrc<u64, impl Fn(usize) -> u64 + '_> {
        FnSrc::new(self.n, move |i| self.kind.key(i, self.salt))
    }
    fn q(&self, i: usize) -> u64 {
        self.kind.key(i, self.salt)
    }
    fn show(&self, i: usize) -> String {
        format!("{}u64", self.q(i))
    }
    fn kind(&self) -> String {
        format!("u64:{}", self.kind.name())
    }
}

struct KStrings {
    kind: StrKeys,
    v: Vec<String>,
    n: usize,
}
impl KStrings {
    fn make(s: &Scn) -> Self {
        let kind = StrKeys::ALL[s.kk % 4];
        KStrings { kind, v: (0..s.n + s.nonmembers).map(|i| kind.key(i)).collect(), n: s.n }
    }
    fn show(&self, i: usize) -> String {
        format!("{:?}", self.v[i])
    }
}
/// key type `str`
struct KStr(KStrings);
impl KStr {
    const FAM: &'static str = "str";
    fn make(s: &Scn) -> Self {
        KStr(KStrings::make(s))
    }
    fn src(&self) -> StrSrc<'_> {
        StrSrc(&self.0.v[..self.0.n])
    }
    fn q(&self, i: usize) -> &str {
        self.0.v[i].as_str()
    }
    fn show(&self, i: usize) -> String {
        self.0.show(i)
    }
    fn kind(&self) -> String {
        format!("str:{}", self.0.kind.name())
    }
}
/// key type `String`
struct KString(KStrings);
impl KString {
    const FAM: &'static str = "String";
    fn make(s: &Scn) -> Self {
        KString(KStrings::make(s))
    }
    fn src(&self) -> SliceSrc<'_, String> {
        SliceSrc(&self.0.v[..self.0.n])
    }
    fn q(&self, i: usize) -> &String {
        &self.0.v[i]
    }
    fn show(&self, i: usize) -> String {
        self.0.show(i)
    }
    fn kind(&self) -> String {
        format!("String:{}", self.0.kind.name())
    }
}
/// key type `&str`
struct KStrRef(KStrings);
impl KStrRef {
    const FAM: &'static str = "&str";
    fn make(s: &Scn) -> Self {
        KStrRef(KStrings::make(s))
    }
    fn src(&self) -> StrRefSrc<'_> {
        StrRefSrc::new(&self.0.v[..self.0.n])
    }
    fn q(&self, i: usize) -> &str {
        self.0.v[i].as_str()
    }
    fn show(&self, i: usize) -> String {
        self.0.show(i)
    }
    fn kind(&self) -> String {
        format!("&str:{}", self.0.kind.name())
    }
}
/// key type `&[u8]`
struct KBytes {
    kind: ByteKeys,
    v: Vec<Vec<u8>>,
    n: usize,
}
impl KBytes {
    const FAM: &'static str = "&[u8]";
    fn make(s: &Scn) -> Self {
        let kind = ByteKeys::ALL[s.kk % 3];
        KBytes { kind, v: (0..s.n + s.nonmembers).map(|i| kind.key(i)).collect(), n: s.n }
    }
    fn src(&self) -> BytesSrc<'_> {
        BytesSrc::new(&self.v[..self.n])
    }
    fn q(&self, i: usize) -> &[u8] {
        self.v[i].as_slice()
    }
    fn show(&self, i: usize) -> String {
        format!("{:?}", self.v[i])
    }
    fn kind(&self) -> String {
        format!("&[u8]:{}", self.kind.name())
    }
}

/// key type `&[u32]`: keys of the same length that share their first elements and differ in the later ones
struct KWords {
    kind: usize,
    v: Vec<Vec<u32>>,
    n: usize,
}
impl KWords {
    #[allow(dead_code)]
    const FAM: &'static str = "&[u32]";
    fn make(s: &Scn) -> Self {
        let kind = s.kk % 3;
        let key = |i: usize| -> Vec<u32> {
            let x = bij64(i as u64, 91);
            match kind {
                // the index in the last two of four elements
                0 => vec![7, 7, x as u32, (x >> 32) as u32],
                // the index in the last element only, after a long constant prefix
                1 => {
                    let mut v = vec![0xDEAD_BEEFu32; 9];
                    v.push(i as u32);
                    v
                }
                // variable length: i in base 2^16, one digit per element (at least one element)
                _ => {
                    let mut v = vec![];
                    let mut y = i;
                    loop {
                        v.push((y & 0xFFFF) as u32);
                        y >>= 16;
                        if y == 0 {
                            break;
                        }
                    }
                    v
                }
            }
        };
        KWords { kind, v: (0..s.n + s.nonmembers).map(key).collect(), n: s.n }
    }
    fn src(&self) -> WordsSrc<'_> {
        WordsSrc::new(&self.v[..self.n])
    }
    fn q(&self, i: usize) -> &[u32] {
        self.v[i].as_slice()
    }
    fn show(&self, i: usize) -> String {
        format!("{:?}", self.v[i])
    }
    fn kind(&self) -> String {
        format!("&[u32]:{}", ["index-in-tail", "long-constant-prefix", "base-65536-digits"][self.kind])
    }
}

// ---------------------------------------------------------------------------
// the monitor

thread_local! {
    static BUILDS_OK: Cell<u64> = const { Cell::new(0) };
    static BUILDS_RETRIED: Cell<u64> = const { Cell::new(0) };
    static PEEL_RETRY: Cell<u64> = const { Cell::new(0) };
    static SHARD_RETRY: Cell<u64> = const { Cell::new(0) };
    static MAX_ATTEMPTS: Cell<u64> = const { Cell::new(0) };
    static BUILDS_SLOW: Cell<u64> = const { Cell::new(0) };
    static ABANDONED: Cell<u64> = const { Cell::new(0) };
    static PAIRS: Cell<u64> = const { Cell::new(0) };
    static UNALIGNED: Cell<u64> = const { Cell::new(0) };
}

fn bump(k: &'static std::thread::LocalKey<Cell<u64>>, by: u64) {
    k.with(|c| c.set(c.get() + by));
}

/// Is `get_unaligned` within its documented precondition for this bit width?
fn unaligned_ok(width: u32, bits: u32) -> bool {
    width <= bits - 8 + 2 || width == bits - 8 + 4 || width == bits
}

#[allow(clippy::too_many_arguments)]
fn run_func<W: Wd, F>(
    c: &mut Case,
    s: &Scn,
    vals: &[W],
    kst: &Stats,
    vst: &Stats,
    keykind: String,
    build: impl FnOnce() -> anyhow::Result<F>,
    get: impl Fn(&F, usize) -> W,
    has_unal: bool,
    unal: impl Fn(&F, usize) -> W,
    len: impl Fn(&F) -> usize,
    show: impl Fn(usize) -> String,
) {
    let n = s.n;
    let maxv = vals.iter().map(|v| v.to_u64()).max().unwrap_or(0);
    let width = 64 - maxv.leading_zeros();
    let input = format!(
        "n={} keys={} (salt {}) values={:?} (max value {}, width {}) builder: {}",
        n,
        keykind,
        s.salt,
        s.vals,
        maxv,
        width,
        s.cfg.show(n)
    );
    c.describe(|| input.clone());
    let was_degraded = degraded();
    let t0 = std::time::Instant::now();
    let r = catch(build);
    let secs = t0.elapsed().as_secs_f64();
    let attempts = kst.passes() as u64;
    let progress = || format!("key lender: {} | value lender: {} | {:.2}s", kst.trace_string(), vst.trace_string(), secs);
    c.tick(1);
    let f = match r {
        Err(p) => {
            c.fail("try_build_func", "panic", &p, &format!("try_build_func panicked: {}; {}; {}", p, input, progress()));
            return;
        }
        Ok(Err(e)) => {
            let es = format!("{:#}", e);
            if kst.noprog.get() || vst.noprog.get() || err_contains(&e, TAG_NOPROG) {
                if was_degraded {
                    // a no-progress violation was already recorded in this process: abandoned, no verdict
                    bump(&ABANDONED, 1);
                    return;
                }
                NOPROG_SEEN.store(true, std::sync::atomic::Ordering::Relaxed);
                c.fail(
                    "try_build_func",
                    "no-progress",
                    "the build does not terminate: attempt bound exceeded",
                    &format!(
                        "the build rewound its input more than {} times without succeeding (bound for n={}); {}; {}",
                        attempt_limit(n),
                        n,
                        input,
                        progress()
                    ),
                );
            } else {
                c.fail("try_build_func", "err", &es, &format!("try_build_func returned Err({}) on distinct keys; {}; {}", es, input, progress()));
            }
            return;
        }
        Ok(Ok(f)) => f,
    };
    bump(&BUILDS_OK, 1);
    if attempts > 1 {
        bump(&BUILDS_RETRIED, 1);
        if s.group == "peel-retry" {
            bump(&PEEL_RETRY, 1);
        }
        if s.group == "max-shard-retry" {
            bump(&SHARD_RETRY, 1);
        }
    }
    if attempts > SOFT_ATTEMPTS as u64 {
        bump(&BUILDS_SLOW, 1);
    }
    MAX_ATTEMPTS.with(|m| m.set(m.get().max(attempts)));
    // every pass over the keys must have been accompanied by a pass over the values
    c.check("len", len(&f) == n, || format!("f.len() = {} but {} keys were supplied; {}; {}", len(&f), n, input, progress()));
    // all pairs
    let mut bad = 0u64;
    let mut first = String::new();
    for i in 0..n {
        let got = get(&f, i);
        if got != vals[i] {
            if bad < 3 {
                first.push_str(&format!(" f.get({}) = {:?}, stored value {:?} (pair #{});", show(i), got, vals[i], i));
            }
            bad += 1;
        }
    }
    c.tick(n as u64);
    bump(&PAIRS, n as u64);
    if bad > 0 {
        c.fail("get", "mismatch", "", &format!("{} of {} keys mapped wrongly:{} {}; {}", bad, n, first, input, progress()));
    }
    if has_unal && unaligned_ok(width, W::BITS) {
        let mut bad = 0u64;
        let mut first = String::new();
        for i in 0..n {
            let got = unal(&f, i);
            if got != vals[i] {
                if bad < 3 {
                    first.push_str(&format!(" f.get_unaligned({}) = {:?}, stored value {:?} (pair #{});", show(i), got, vals[i], i));
                }
                bad += 1;
            }
        }
        c.tick(n as u64);
        bump(&UNALIGNED, n as u64);
        if bad > 0 {
            c.fail("get_unaligned", "mismatch", "", &format!("{} of {} keys mapped wrongly (bit width {}):{} {}; {}", bad, n, width, first, input, progress()));
        }
    }
    // non-members: any value is fine; executed for the UB checks / sanitizers
    let mut acc = 0u64;
    for j in 0..s.nonmembers {
        acc ^= get(&f, n + j).to_u64();
    }
    std::hint::black_box(acc);
    if n >= 2 {
        c.nontrivial();
    }
}

macro_rules! unal_closure {
    (bfv, $keys:ident, $W:ty) => {
        |f, i| f.get_unaligned($keys.q(i))
    };
    (boxed, $keys:ident, $W:ty) => {
        |_f, _i| -> $W { unreachable!() }
    };
}
macro_rules! backend {
    (bfv, $W:ty) => { BitFieldVec<$W> };
    (boxed, $W:ty) => { Box<[$W]> };
}
macro_rules! has_unal {
    (bfv) => {
        true
    };
    (boxed) => {
        false
    };
}

/// One monomorphic variant: word, backend, signature type, shard/edge logic, key type.
macro_rules! func_variant {
    ($fname:ident, $W:ty, $B:ident, $S:ty, $E:ty, $K:ident) => {
        fn $fname(c: &mut Case, s: &Scn) {
            let keys = $K::make(s);
            let vals: Vec<$W> = (0..s.n).map(|i| <$W as Wd>::from_u64(s.val(i, <$W>::BITS))).collect();
            let kst = Stats::new();
            let vst = Stats::new();
            run_func(
                c,
                s,
                &vals,
                &kst,
                &vst,
                keys.kind(),
                || {
                    let kl = ProbeLender::new(keys.src(), &kst);
                    let vl = ProbeLender::new(SliceSrc(&vals[..]), &vst);
                    vb_configure!(VBuilder::<$W, backend!($B, $W), $S, $E>::default(), &s.cfg, s.n).try_build_func(kl, vl, no_logging![])
                },
                |f, i| f.get(keys.q(i)),
                has_unal!($B),
                unal_closure!($B, keys, $W),
                |f| f.len(),
                |i| keys.show(i),
            );
        }
    };
}

type S2 = [u64; 2];
type S1 = [u64; 1];

// sharded, 128-bit signatures, 64-bit local signatures (the default)
func_variant!(v_usize_bfv_shards_usize, usize, bfv, S2, FuseLge3Shards, KUsize);
func_variant!(v_usize_box_shards_usize, usize, boxed, S2, FuseLge3Shards, KUsize);
func_variant!(v_u64_box_shards_bytes, u64, boxed, S2, FuseLge3Shards, KBytes);
func_variant!(v_u64_bfv_shards_u64, u64, bfv, S2, FuseLge3Shards, KU64);
func_variant!(v_u8_bfv_shards_str, u8, bfv, S2, FuseLge3Shards, KStr);
func_variant!(v_u16_box_shards_string, u16, boxed, S2, FuseLge3Shards, KString);
// unsharded, 128-bit signatures
func_variant!(v_usize_bfv_noshards128_u64, usize, bfv, S2, FuseLge3NoShards, KU64);
func_variant!(v_u64_box_noshards128_usize, u64, boxed, S2, FuseLge3NoShards, KUsize);
func_variant!(v_u16_bfv_noshards128_strref, u16, bfv, S2, FuseLge3NoShards, KStrRef);
func_variant!(v_u32_box_noshards128_str, u32, boxed, S2, FuseLge3NoShards, KStr);
// unsharded, 64-bit signatures
func_variant!(v_usize_bfv_noshards64_str, usize, bfv, S1, FuseLge3NoShards, KStr);
func_variant!(v_u64_box_noshards64_u64, u64, boxed, S1, FuseLge3NoShards, KU64);
func_variant!(v_u8_box_noshards64_usize, u8, boxed, S1, FuseLge3NoShards, KUsize);
func_variant!(v_u32_bfv_noshards64_usize, u32, bfv, S1, FuseLge3NoShards, KUsize);
// sharded, full signatures as local signatures
func_variant!(v_usize_bfv_fullsigs_string, usize, bfv, S2, FuseLge3FullSigs, KString);
func_variant!(v_u64_box_fullsigs_str, u64, boxed, S2, FuseLge3FullSigs, KStr);
func_variant!(v_u32_bfv_fullsigs_bytes, u32, bfv, S2, FuseLge3FullSigs, KBytes);
func_variant!(v_u16_bfv_shards_words, u16, bfv, S2, FuseLge3Shards, KWords);
func_variant!(v_u64_box_noshards64_words, u64, boxed, S1, FuseLge3NoShards, KWords);
func_variant!(v_u8_bfv_fullsigs_u64, u8, bfv, S2, FuseLge3FullSigs, KU64);

struct Variant {
    name: &'static str,
    run: fn(&mut Case, &Scn),
    /// 0 = FuseLge3Shards, 1 = FuseLge3NoShards/128, 2 = FuseLge3NoShards/64, 3 = FuseLge3FullSigs
    logic: usize,
    bits: u32,
    /// keys are computed on the fly (any n is cheap)
    int_keys: bool,
}

const VARIANTS: &[Variant] = &[
    Variant { name: "usize/BitFieldVec/sig128/FuseLge3Shards/key=usize", run: v_usize_bfv_shards_usize, logic: 0, bits: 64, int_keys: true },
    Variant { name: "usize/Box/sig128/FuseLge3Shards/key=usize", run: v_usize_box_shards_usize, logic: 0, bits: 64, int_keys: true },
    Variant { name: "u64/Box/sig128/FuseLge3Shards/key=&[u8]", run: v_u64_box_shards_bytes, logic: 0, bits: 64, int_keys: false },
    Variant { name: "u64/BitFieldVec/sig128/FuseLge3Shards/key=u64", run: v_u64_bfv_shards_u64, logic: 0, bits: 64, int_keys: true },
    Variant { name: "u8/BitFieldVec/sig128/FuseLge3Shards/key=str", run: v_u8_bfv_shards_str, logic: 0, bits: 8, int_keys: false },
    Variant { name: "u16/Box/sig128/FuseLge3Shards/key=String", run: v_u16_box_shards_string, logic: 0, bits: 16, int_keys: false },
    Variant { name: "usize/BitFieldVec/sig128/FuseLge3NoShards/key=u64", run: v_usize_bfv_noshards128_u64, logic: 1, bits: 64, int_keys: true },
    Variant { name: "u64/Box/sig128/FuseLge3NoShards/key=usize", run: v_u64_box_noshards128_usize, logic: 1, bits: 64, int_keys: true },
    Variant { name: "u16/BitFieldVec/sig128/FuseLge3NoShards/key=&str", run: v_u16_bfv_noshards128_strref, logic: 1, bits: 16, int_keys: false },
    Variant { name: "u32/Box/sig128/FuseLge3NoShards/key=str", run: v_u32_box_noshards128_str, logic: 1, bits: 32, int_keys: false },
    Variant { name: "usize/BitFieldVec/sig64/FuseLge3NoShards/key=str", run: v_usize_bfv_noshards64_str, logic: 2, bits: 64, int_keys: false },
    Variant { name: "u64/Box/sig64/FuseLge3NoShards/key=u64", run: v_u64_box_noshards64_u64, logic: 2, bits: 64, int_keys: true },
    Variant { name: "u8/Box/sig64/FuseLge3NoShards/key=usize", run: v_u8_box_noshards64_usize, logic: 2, bits: 8, int_keys: true },
    Variant { name: "u32/BitFieldVec/sig64/FuseLge3NoShards/key=usize", run: v_u32_bfv_noshards64_usize, logic: 2, bits: 32, int_keys: true },
    Variant { name: "usize/BitFieldVec/sig128/FuseLge3FullSigs/key=String", run: v_usize_bfv_fullsigs_string, logic: 3, bits: 64, int_keys: false },
    Variant { name: "u64/Box/sig128/FuseLge3FullSigs/key=str", run: v_u64_box_fullsigs_str, logic: 3, bits: 64, int_keys: false },
    Variant { name: "u32/BitFieldVec/sig128/FuseLge3FullSigs/key=&[u8]", run: v_u32_bfv_fullsigs_bytes, logic: 3, bits: 32, int_keys: false },
    Variant { name: "u16/BitFieldVec/sig128/FuseLge3Shards/key=&[u32]", run: v_u16_bfv_shards_words, logic: 0, bits: 16, int_keys: false },
    Variant { name: "u64/Box/sig64/FuseLge3NoShards/key=&[u32]", run: v_u64_box_noshards64_words, logic: 2, bits: 64, int_keys: false },
    Variant { name: "u8/BitFieldVec/sig128/FuseLge3FullSigs/key=u64", run: v_u8_bfv_fullsigs_u64, logic: 3, bits: 8, int_keys: true },
];

fn variants_of(logic: usize) -> Vec<usize> {
    (0..VARIANTS.len()).filter(|&i| VARIANTS[i].logic == logic).collect()
}

// ---------------------------------------------------------------------------
// scenario generation (outside the cases: identical in every shard)

struct Lim {
    /// largest n for this build
    max_n: usize,
    /// hint 10^8 reserves gigabytes of address space: not under the sanitizers
    huge_hint: bool,
}

fn pick<T: Copy>(r: &mut SmallRng, xs: &[T]) -> T {
    xs[r.random_range(0..xs.len())]
}

fn rand_hint(r: &mut SmallRng, lim: &Lim) -> Hint {
    let h = pick(
        r,
        &[
            Hint::Absent,
            Hint::Absent,
            Hint::Exact,
            Hint::Exact,
            Hint::Tenth,
            Hint::Tenth,
            Hint::Zero,
            Hint::Minus1,
            Hint::Plus1,
            Hint::Double,
            Hint::Times8,
            Hint::Fixed(800_000),
            Hint::Fixed(800_000),
            Hint::Fixed(100_000_000),
        ],
    );
    if h == Hint::Fixed(100_000_000) && !lim.huge_hint {
        Hint::Fixed(800_000)
    } else {
        h
    }
}

fn rand_vals(r: &mut SmallRng, bits: u32) -> ValKind {
    match r.random_range(0..8) {
        0 | 1 => ValKind::Identity,
        2 => ValKind::Zero,
        3 => ValKind::AllOnes,
        4 | 5 => ValKind::Random(r.random_range(1..=bits)),
        _ => ValKind::SparseMax(r.random_range(0..3), r.random_range(1..=bits)),
    }
}

/// Random performance knobs (everything but the hint).
fn rand_knobs(r: &mut SmallRng, cfg: &mut Cfg) {
    cfg.threads = pick(r, &[None, Some(1), Some(2), Some(3), Some(8), Some(16)]);
    cfg.offline = r.random_range(0..4) == 0;
    cfg.low_mem = pick(r, &[None, Some(false), Some(true)]);
    let (a, b) = (r.random::<u64>(), r.random::<u64>());
    cfg.seed = pick(r, &[0, 0, 1, 42, a, b]);
    cfg.log2_buckets = if cfg.offline { pick(r, &[Some(0), Some(2), Some(4)]) } else { pick(r, &[None, Some(0), Some(4), Some(8), Some(10)]) };
    cfg.eps = pick(r, &[None, Some(0.001), Some(0.01), Some(0.1)]);
}

fn scn(r: &mut SmallRng, group: &'static str, n: usize, vals: ValKind, cfg: Cfg) -> Scn {
    Scn { n, kk: r.random_range(0..12), vals, cfg, salt: r.random::<u64>() >> 1, nonmembers: if n <= 300 { 200 } else { 10_000 }, group }
}

fn main() {
    default_thread_stacks();
    let mut ctx = Ctx::from_args("C07");
    ctx.set_hang_limit(600);
    let debug = cfg!(debug_assertions);
    let san = ctx.build == "ASAN" || ctx.build == "TSAN";
    let thorough = ctx.thorough();
    // debug builds are slow, ASan is slower; TSan gets the 4-shard size for the parallel solver
    let lim = Lim { max_n: if debug || ctx.build == "TSAN" { 200_000 } else if san { 100_000 } else { usize::MAX }, huge_hint: !san };
    let mut r = ctx.rng(7);
    let timing = timing_enabled();
    // which pairs of option values occur together in the generated configurations (evidence only)
    let mut pairs: std::collections::HashSet<(u8, u8, u8, u8)> = std::collections::HashSet::new();
    let mut seen: std::collections::HashSet<(u8, u8)> = std::collections::HashSet::new();
    let mut run = |ctx: &mut Ctx, v: usize, s: Scn| {
        let var = &VARIANTS[v];
        {
            let c = &s.cfg;
            let hint = match c.hint {
                Hint::Absent => 0,
                Hint::Exact => 1,
                Hint::Tenth => 2,
                Hint::Zero => 3,
                Hint::Minus1 => 4,
                Hint::Plus1 => 5,
                Hint::Double => 6,
                Hint::Times8 => 7,
                Hint::Fixed(800_000) => 8,
                Hint::Fixed(_) => 9,
            };
            let knobs: [u8; 10] = [
                hint,
                c.threads.map(|t| t as u8).unwrap_or(0),
                c.offline as u8,
                c.low_mem.map(|l| 1 + l as u8).unwrap_or(0),
                match c.seed {
                    0 => 0,
                    1 => 1,
                    42 => 2,
                    _ => 3,
                },
                c.log2_buckets.map(|l| 1 + l as u8).unwrap_or(0),
                c.eps.map(|e| if e < 0.005 { 1 } else if e < 0.05 { 2 } else { 3 }).unwrap_or(0),
                var.logic as u8,
                v as u8,
                match s.vals {
                    ValKind::Identity => 0,
                    ValKind::Zero => 1,
                    ValKind::AllOnes => 2,
                    ValKind::Random(_) => 3,
                    ValKind::SparseMax(..) => 4,
                },
            ];
            for i in 0..knobs.len() {
                seen.insert((i as u8, knobs[i]));
                for j in i + 1..knobs.len() {
                    pairs.insert((i as u8, knobs[i], j as u8, knobs[j]));
                }
            }
        }
        let t0 = cpu_secs();
        let runs = ctx.next_runs();
        ctx.case(var.name, &s.stratum(), "build+get", |c| (var.run)(c, &s));
        if runs && timing {
            eprintln!("TIME {:.4} {} n={} {}", cpu_secs() - t0, s.group, s.n, s.cfg.show(s.n));
        }
    };

    // 1. every n in 0..=300, for each shard/edge logic (variant, hint, values, knobs rotate/random)
    for n in 0..=300usize {
        for logic in 0..4 {
            let vs = variants_of(logic);
            let v = vs[(n + logic) % vs.len()];
            let mut cfg = Cfg { hint: rand_hint(&mut r, &lim), ..Cfg::default() };
            rand_knobs(&mut r, &mut cfg);
            let vals = rand_vals(&mut r, VARIANTS[v].bits);
            let s = scn(&mut r, "every-small-n", n, vals, cfg);
            run(&mut ctx, v, s);
        }
    }

    // 2. hints, all kinds, on tiny and small key sets: default knobs so that the hint is the only difference
    let mut hints = vec![
        Hint::Absent,
        Hint::Exact,
        Hint::Tenth,
        Hint::Zero,
        Hint::Minus1,
        Hint::Plus1,
        Hint::Double,
        Hint::Times8,
        Hint::Fixed(800_000),
    ];
    if lim.huge_hint {
        hints.push(Hint::Fixed(100_000_000));
    }
    for &n in &[0usize, 1, 2, 3, 10, 100, 101, 1000, 10_000] {
        for logic in 0..4 {
            let vs = variants_of(logic);
            for (hi, &h) in hints.iter().enumerate() {
                let v = vs[(hi + n) % vs.len()];
                for offline in [false, true] {
                    if offline && (hi + n + logic) % 3 != 0 {
                        continue;
                    }
                    let cfg = Cfg { hint: h, offline, ..Cfg::default() };
                    let s = scn(&mut r, "hint", n, ValKind::Identity, cfg);
                    run(&mut ctx, v, s);
                }
            }
        }
    }

    // 3. regime edges x logic x hint
    // (the switch at 800 000 keys is in the quick tier too, with two hints instead of four)
    let mut edges: Vec<usize> = vec![99, 100, 101, 49_999, 50_000, 99_999, 100_000, 100_001, 200_000, 799_999, 800_000, 800_001];
    if thorough {
        edges.extend_from_slice(&[199_999, 399_999, 400_000, 1_500_000]);
    }
    for &n in edges.iter().filter(|&&n| n <= lim.max_n) {
        for logic in 0..4 {
            let vs: Vec<usize> = variants_of(logic).into_iter().filter(|&v| VARIANTS[v].int_keys || n <= 200_000).collect();
            let hs: &[Hint] = if !thorough && n >= 799_999 {
                &[Hint::Absent, Hint::Exact]
            } else if n >= 100_000 && n <= 800_000 {
                &[Hint::Absent, Hint::Exact, Hint::Tenth, Hint::Times8]
            } else if n > 800_000 {
                &[Hint::Absent, Hint::Tenth]
            } else {
                &[Hint::Absent, Hint::Exact, Hint::Tenth, Hint::Fixed(800_000)]
            };
            for (hi, &h) in hs.iter().enumerate() {
                if debug && n >= 100_000 && hi % 2 == 1 && logic % 2 == 1 {
                    continue; // debug builds are slow: half of the hint x logic grid at the big sizes
                }
                let v = vs[(hi + n) % vs.len()];
                let mut cfg = Cfg { hint: h, ..Cfg::default() };
                if hi % 2 == 1 {
                    rand_knobs(&mut r, &mut cfg);
                    if n > 300_000 {
                        cfg.offline = false;
                    }
                }
                let vals = if hi == 0 { ValKind::Identity } else { rand_vals(&mut r, VARIANTS[v].bits) };
                let s = scn(&mut r, "regime-edge", n, vals, cfg);
                run(&mut ctx, v, s);
            }
        }
    }

    // 3b. key counts at which the unsharded fuse graph (peeling, no lazy Gaussian
    //     elimination) is known to fail its first attempts on this code base, so
    //     that the retry after an incomplete peeling is exercised (release builds;
    //     the note c07_counters.peel_regime_builds_that_retried says whether it was)
    if !debug && lim.max_n > 200_000 {
        let ns: &[usize] = if thorough { &[126_191, 126_288, 126_359, 126_385, 126_401, 126_450, 126_482, 126_499, 126_520] } else { &[126_359, 126_401, 126_450, 126_499] };
        for v in 0..VARIANTS.len() {
            if !VARIANTS[v].name.contains("NoShards") || !VARIANTS[v].int_keys {
                continue;
            }
            for (i, &n) in ns.iter().enumerate() {
                for (j, seed) in [0u64, 0, 1].into_iter().enumerate() {
                    let cfg = Cfg { seed, low_mem: [None, Some(true), Some(false)][(i + j) % 3], hint: [Hint::Absent, Hint::Exact][(i + j) % 2], ..Cfg::default() };
                    let vals = if j == 0 { ValKind::Identity } else { rand_vals(&mut r, VARIANTS[v].bits) };
                    let s = scn(&mut r, "peel-retry", n, vals, cfg);
                    run(&mut ctx, v, s);
                }
            }
        }
    }

    // 3c. sharded builds (4 and 8 shards) under many builder seeds: a few per cent
    //     of them draw an unbalanced sharding (largest shard > 1.01 x average) and
    //     must start over with a new seed after rewinding keys and values (release
    //     builds; c07_counters.sharded_builds_that_retried says how many did)
    if !debug && lim.max_n > 400_000 {
        let plan: &[(usize, u64)] = if thorough { &[(200_000, 40), (400_000, 60), (799_999, 20)] } else { &[(200_000, 16), (400_000, 24)] };
        let vs: Vec<usize> = (0..VARIANTS.len()).filter(|&v| VARIANTS[v].name.contains("FuseLge3Shards") && VARIANTS[v].int_keys).collect();
        for &(n, seeds) in plan {
            for seed in 0..seeds {
                let v = vs[(seed as usize) % vs.len()];
                let cfg = Cfg { seed: if seed % 2 == 0 { seed } else { 75 + 44 * seed }, hint: [Hint::Absent, Hint::Exact, Hint::Tenth][(seed % 3) as usize], ..Cfg::default() };
                let vals = if seed % 4 == 0 { ValKind::Identity } else { rand_vals(&mut r, VARIANTS[v].bits) };
                let s = scn(&mut r, "max-shard-retry", n, vals, cfg);
                run(&mut ctx, v, s);
            }
        }
    }

    // 4. multi-shard sizes: thread counts x peeling/memory strategy x too-small hint (sharded logics only)
    {
        let mut sizes: Vec<usize> = vec![100_000, 163_840, 200_000];
        if thorough {
            sizes.extend_from_slice(&[300_000, 400_000, 650_000, 800_000]);
        }
        for &n in sizes.iter().filter(|&&n| n <= lim.max_n) {
            for (ti, &t) in [1usize, 2, 3, 8, 16].iter().enumerate() {
                for (li, &lm) in [None, Some(false), Some(true)].iter().enumerate() {
                    if debug && (ti + li) % 2 == 1 {
                        continue;
                    }
                    let logic = if (ti + li) % 2 == 0 { 0 } else { 3 };
                    let vs: Vec<usize> = variants_of(logic).into_iter().filter(|&v| VARIANTS[v].int_keys).collect();
                    let v = vs[(ti + li + n) % vs.len()];
                    let h = [Hint::Tenth, Hint::Absent, Hint::Exact][(ti + li) % 3];
                    let cfg = Cfg { hint: h, threads: Some(t), low_mem: lm, seed: r.random(), eps: pick(&mut r, &[None, Some(0.01), Some(0.1)]), ..Cfg::default() };
                    let vals = rand_vals(&mut r, VARIANTS[v].bits);
                    let s = scn(&mut r, "multi-shard-threads", n, vals, cfg);
                    run(&mut ctx, v, s);
                }
            }
        }
    }

    // 5. every variant x value kind x small sizes (backends, words, key types, width 0, full width)
    for v in 0..VARIANTS.len() {
        let bits = VARIANTS[v].bits;
        let kinds = [
            ValKind::Identity,
            ValKind::Zero,
            ValKind::AllOnes,
            ValKind::Random(1),
            ValKind::Random(bits - 1),
            ValKind::Random(bits),
            ValKind::Random(bits - 4),
            ValKind::Random(bits - 5),
            ValKind::SparseMax(0, bits),
            ValKind::SparseMax(1, bits / 2 + 1),
            ValKind::SparseMax(2, bits - 3),
        ];
        for &n in &[0usize, 1, 2, 7, 64, 1000, 20_000] {
            for (ki, &vals) in kinds.iter().enumerate() {
                if n == 20_000 && ki % 3 != v % 3 {
                    continue;
                }
                let mut cfg = Cfg { hint: rand_hint(&mut r, &lim), ..Cfg::default() };
                if ki % 2 == 1 {
                    rand_knobs(&mut r, &mut cfg);
                }
                let mut s = scn(&mut r, "values", n, vals, cfg);
                s.kk = ki + n; // rotate the key generators of the family
                run(&mut ctx, v, s);
            }
        }
    }

    // 6. thorough, release build only: the big sizes, one case each (memory: well below 1 GB per process)
    if thorough && !debug && !san {
        let big = [
            (0usize, 12_000_000usize, Hint::Absent, None, false),
            (3usize, 12_000_000usize, Hint::Tenth, Some(true), false),
            (1usize, 3_000_000usize, Hint::Exact, Some(false), true),
            (2usize, 1_500_000usize, Hint::Double, None, true),
        ];
        for &(logic, n, h, lm, offline) in big.iter() {
            let vs: Vec<usize> = variants_of(logic).into_iter().filter(|&v| VARIANTS[v].int_keys).collect();
            let v = vs[0];
            let cfg = Cfg { hint: h, low_mem: lm, offline, ..Cfg::default() };
            let s = scn(&mut r, "big", n, ValKind::Identity, cfg);
            run(&mut ctx, v, s);
        }
    }

    // 7. random rounds on top
    let rounds = ctx.scale(10, 6_000, 60_000);
    for round in 0..rounds {
        let v = r.random_range(0..VARIANTS.len());
        let var = &VARIANTS[v];
        let cap = if var.int_keys { lim.max_n.min(250_000) } else { lim.max_n.min(60_000) };
        let n = match r.random_range(0..100) {
            0..=39 => r.random_range(0..=300),
            40..=64 => r.random_range(301..=5_000),
            65..=74 => pick(&mut r, &[99usize, 100, 101, 102, 49_999, 50_000, 50_001]),
            75..=89 => r.random_range(5_001..=60_000),
            90..=95 => pick(&mut r, &[99_999usize, 100_000, 100_001, 100_002]),
            _ => r.random_range(60_001..=250_000),
        }
        .min(cap);
        let n = if debug && n > 20_000 && round % 4 != 0 { n / 10 } else { n };
        let mut cfg = Cfg { hint: rand_hint(&mut r, &lim), ..Cfg::default() };
        rand_knobs(&mut r, &mut cfg);
        let vals = rand_vals(&mut r, var.bits);
        let s = scn(&mut r, "random", n, vals, cfg);
        run(&mut ctx, v, s);
        if ctx.out_of_time() {
            break;
        }
    }

    {
        let mut possible = 0usize;
        let sv: Vec<(u8, u8)> = seen.iter().copied().collect();
        for a in sv.iter() {
            for b in sv.iter() {
                // (seed class, log2_buckets) x offline are constrained by construction; everything else is free
                if a.0 < b.0 {
                    possible += 1;
                }
            }
        }
        ctx.note(
            "c07_option_value_pairs_in_the_generated_configurations_of_one_shard_(hint,threads,offline,low_mem,seed,log2_buckets,eps,logic,variant,values)",
            &format!("\"{} pairs of option values occur together, of {} combinations of values seen individually\"", pairs.len(), possible),
        );
    }
    let counters = format!(
        "{{\"builds_ok\":{},\"builds_needing_retries\":{},\"peel_regime_builds_that_retried\":{},\"sharded_builds_that_retried\":{},\"slow_convergence_builds_over_64_attempts\":{},\"abandoned_after_a_no_progress_violation\":{},\"pairs_checked\":{},\"unaligned_pairs_checked\":{}}}",
        BUILDS_OK.with(|c| c.get()),
        BUILDS_RETRIED.with(|c| c.get()),
        PEEL_RETRY.with(|c| c.get()),
        SHARD_RETRY.with(|c| c.get()),
        BUILDS_SLOW.with(|c| c.get()),
        ABANDONED.with(|c| c.get()),
        PAIRS.with(|c| c.get()),
        UNALIGNED.with(|c| c.get())
    );
    ctx.note("c07_counters", &counters);
    ctx.note("c07_max_attempts_of_a_successful_build_per_shard", &format!("\"{}\"", MAX_ATTEMPTS.with(|c| c.get())));
    ctx.finish();
}
