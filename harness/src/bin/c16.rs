//! C16 — every signature maps to three distinct in-range cells, consistently
//! between build time (local edges inside a shard) and query time (global
//! edges).
//!
//! Oracle: the inequalities of the property, evaluated on the observable
//! quantities only (`shard`, `edge`, `local_sig`, `local_edge`, `sort_key`,
//! `num_vertices`, `num_shards`, `num_sort_keys`, `shard_high_bits`); the
//! expected shard is computed here by shifting the first signature word and
//! also compared with `Sig::high_bits`, the function the signature store uses.
//!
//! A set-up whose `set_up_graphs` panics with the documented capacity
//! assertion is *not reachable*: it is counted and not judged.
use rand::rngs::SmallRng;
use rand::Rng;
use std::cell::Cell;
use std::fmt::Debug;
use sux::func::shard_edge::{FuseLge3FullSigs, FuseLge3NoShards, FuseLge3Shards, ShardEdge};
use sux::utils::Sig;
use suxmon::obs::*;

trait SigT: Sig + Copy + Debug + 'static {
    const WORDS: usize;
    fn make(w0: u64, w1: u64) -> Self;
    fn w0(&self) -> u64;
    fn show(&self) -> String;
}
impl SigT for [u64; 1] {
    const WORDS: usize = 1;
    fn make(w0: u64, _w1: u64) -> Self {
        [w0]
    }
    fn w0(&self) -> u64 {
        self[0]
    }
    fn show(&self) -> String {
        format!("[{:#018x}]", self[0])
    }
}
impl SigT for [u64; 2] {
    const WORDS: usize = 2;
    fn make(w0: u64, w1: u64) -> Self {
        [w0, w1]
    }
    fn w0(&self) -> u64 {
        self[0]
    }
    fn show(&self) -> String {
        format!("[{:#018x}, {:#018x}]", self[0], self[1])
    }
}

const VARIANTS: [&str; 4] = ["FuseLge3Shards", "FuseLge3FullSigs", "FuseLge3NoShards/sig2", "FuseLge3NoShards/sig1"];

/// A reachable set-up and what it lets us observe.
struct SetUp<E> {
    e: E,
    variant: &'static str,
    n: usize,
    eps: f64,
    max_shard: usize,
    pre: Option<(usize, f64)>,
    hb: u32,
    ns: usize,
    nv: usize,
    nsk: usize,
}

impl<E> SetUp<E> {
    fn show(&self) -> String {
        format!(
            "{}: {}set_up_shards({}, {:e}); set_up_graphs({}, {}) => shard_high_bits {} num_shards {} num_vertices {} num_sort_keys {}",
            self.variant,
            match self.pre {
                Some((n0, e0)) => format!("[first set up for n={} eps={:e}, then] ", n0, e0),
                None => String::new(),
            },
            self.n,
            self.eps,
            self.n,
            self.max_shard,
            self.hb,
            self.ns,
            self.nv,
            self.nsk
        )
    }
    fn cell(&self) -> String {
        format!("{}|hb{}|nv{}|l{}", self.variant, self.hb, self.nv, self.nsk)
    }
}

/// The maximum shard sizes the builder can hand to `set_up_graphs` and then
/// use: at least the average (rounded up), at most 1.01 times the average
/// (anything larger is rejected before the graph is used).
fn max_shard_bounds(n: usize, ns: usize) -> (usize, usize) {
    let lo = n.div_ceil(ns);
    let bound = 1.01 * n as f64 / ns as f64;
    let mut hi = bound.floor() as usize;
    while hi as f64 > bound {
        hi -= 1;
    }
    while ((hi + 1) as f64) <= bound {
        hi += 1;
    }
    (lo, hi.max(lo))
}

#[derive(Clone, Copy, Debug)]
enum Ms {
    Lo,
    Mid,
    Hi,
    Rand,
    /// a largest shard far below the average: not what the builder passes, but inside the
    /// domain of set_up_graphs (index into a small table)
    Small(usize),
}

fn is_capacity_panic(msg: &str) -> bool {
    msg.contains("does not support more than") || msg.contains("u32::MAX") || msg.contains("TryFromIntError")
}

enum Outcome<E> {
    Ready(SetUp<E>),
    Unreachable,
    Failed,
}

#[allow(clippy::too_many_arguments)]
fn set_up<S: SigT, E: ShardEdge<S, 3>>(
    c: &mut Case,
    variant: &'static str,
    n: usize,
    eps: f64,
    ms: Ms,
    pre: Option<(usize, f64)>,
) -> Outcome<E> {
    let mut e = E::default();
    if let Some((n0, e0)) = pre {
        // the builder sets the sharding up for the expected number of keys
        // first and for the actual number later; the second set-up must win
        let mut t = e;
        let r = catch(move || {
            t.set_up_shards(n0, e0);
            let ns0 = t.num_shards();
            t.set_up_graphs(n0, n0.div_ceil(ns0));
            t
        });
        if let Ok(t) = r {
            e = t;
        }
    }
    let r = c.guard("set_up_shards", move || {
        let mut t = e;
        t.set_up_shards(n, eps);
        t
    });
    let Some(mut e) = r else {
        c.describe(|| format!("{}: set_up_shards({}, {:e}) panicked", variant, n, eps));
        return Outcome::Failed;
    };
    let hb = e.shard_high_bits();
    if !c.check("shard_high_bits", hb < 64, || format!("{}: set_up_shards({}, {:e}) gives shard_high_bits() = {}", variant, n, eps, hb)) {
        return Outcome::Failed;
    }
    let ns = e.num_shards();
    let max_shard = if ns <= 1 {
        n
    } else {
        let (lo, hi) = max_shard_bounds(n, ns);
        match ms {
            Ms::Lo => lo,
            Ms::Mid => lo + (hi - lo) / 2,
            Ms::Hi => hi,
            Ms::Rand => c.rng().random_range(lo..=hi),
            Ms::Small(k) => [1usize, 100, 1100, 3000, lo / 10 + 1, lo / 2 + 1][k % 6].min(lo),
        }
    };
    let r = catch(move || {
        let mut t = e;
        t.set_up_graphs(n, max_shard);
        t
    });
    match r {
        Ok(t) => e = t,
        Err(msg) => {
            if is_capacity_panic(&msg) {
                return Outcome::Unreachable;
            }
            c.fail(
                "set_up_graphs",
                "panic",
                &msg,
                &format!("{}: set_up_shards({}, {:e}); set_up_graphs({}, {}) panicked with something else than the capacity assertion: {}", variant, n, eps, n, max_shard, msg),
            );
            return Outcome::Failed;
        }
    }
    // everything is judged against what the finished set-up reports
    let hb = e.shard_high_bits();
    if !c.check("shard_high_bits", hb < 64, || format!("{}: set_up_graphs({}, {}) leaves shard_high_bits() = {}", variant, n, max_shard, hb)) {
        return Outcome::Failed;
    }
    let ns = e.num_shards();
    let nv = e.num_vertices();
    let nsk = e.num_sort_keys();
    let su = SetUp { e, variant, n, eps, max_shard, pre, hb, ns, nv, nsk };
    if !c.check("num_vertices", nv.checked_mul(ns).is_some() && nv >= 3, || format!("num_vertices() x num_shards() overflows or fewer than 3 vertices; {}", su.show())) {
        return Outcome::Failed;
    }
    Outcome::Ready(su)
}

// ---------------------------------------------------------------------------
// signatures

const E32: [u64; 6] = [0, 1, 0x7fff_ffff, 0x8000_0000, 0xffff_fffe, 0xffff_ffff];

fn extreme_words() -> Vec<u64> {
    let mut v = Vec::new();
    for hi in E32 {
        for lo in E32 {
            v.push(hi << 32 | lo);
        }
    }
    v
}

fn low_mask(bits: u32) -> u64 {
    if bits == 0 {
        0
    } else if bits >= 64 {
        u64::MAX
    } else {
        (1u64 << bits) - 1
    }
}

/// Signatures built from the extremes of every field the edge computation
/// reads, for the observed geometry of the set-up.
fn structured_sigs<S: SigT, E>(su: &SetUp<E>, rng: &mut SmallRng) -> Vec<S> {
    let mut out: Vec<S> = Vec::new();
    let ew = extreme_words();
    // 1. extremes of each 64-bit word and of each 32-bit half, all combinations
    if S::WORDS == 2 {
        for &a in &ew {
            for &b in &ew {
                out.push(S::make(a, b));
            }
        }
    } else {
        for &a in &ew {
            out.push(S::make(a, 0));
        }
    }
    let some_w1: Vec<u64> = vec![0, u64::MAX, 1 << 63, 0xffff_ffff, 0xffff_ffff_0000_0000, rng.random(), rng.random(), rng.random()];
    // 2. the shard bits and the bits just below them
    let hb = su.hb;
    if hb > 0 && hb < 64 {
        let tm = low_mask(hb);
        let mut tops = vec![0, 1, tm, tm - 1, 1u64 << (hb - 1), (1u64 << (hb - 1)).wrapping_sub(1) & tm, rng.random::<u64>() & tm];
        tops.sort();
        tops.dedup();
        let bm = low_mask(64 - hb);
        let bmsb = 1u64 << (63 - hb);
        let mut belows = vec![0, 1, bm, bm - 1, bmsb, bmsb - 1, bmsb | 1, rng.random::<u64>() & bm];
        // the 8 bits just below the shard bits all ones / all zeros, random further down
        let b8 = low_mask(8.min(64 - hb)) << (64 - hb - 8.min(64 - hb));
        belows.push(b8 | (rng.random::<u64>() & bm));
        belows.push(!b8 & rng.random::<u64>() & bm);
        belows.sort();
        belows.dedup();
        for &t in &tops {
            for &b in &belows {
                let w0 = (t << (64 - hb)) | b;
                if S::WORDS == 2 {
                    for &w1 in &some_w1 {
                        out.push(S::make(w0, w1));
                    }
                } else {
                    out.push(S::make(w0, 0));
                }
            }
        }
    }
    // 3. segment geometry: nv = (l + 2) * seg with seg a power of two (when it is)
    let l = su.nsk as u64;
    let segs = l + 2;
    let seg = if segs > 0 && su.nv as u64 % segs == 0 { su.nv as u64 / segs } else { 0 };
    if seg.is_power_of_two() {
        let lg = seg.trailing_zeros();
        // the two XOR fields (low lg bits, next lg bits; in both halves for the 32-bit readers)
        let mut fields = Vec::new();
        for low in [0, low_mask(lg)] {
            for mid in [0, low_mask(lg)] {
                for rest in [0u64, u64::MAX, rng.random()] {
                    let w = (rest << lg << lg) | (mid << lg) | low;
                    fields.push(w);
                    // same pattern in both 32-bit halves
                    let h = ((rest << lg) | low) & 0xffff_ffff;
                    fields.push(h << 32 | ((mid << lg | low) & 0xffff_ffff));
                }
            }
        }
        fields.sort();
        fields.dedup();
        if S::WORDS == 2 {
            for &a in &fields {
                for &b in &fields {
                    out.push(S::make(a, b));
                }
            }
        } else {
            for &a in &fields {
                out.push(S::make(a, 0));
            }
        }
        // 4. fixed-point products landing on the first / last vertex of the first / last segment
        let nn = (l as u128) * (seg as u128); // the inversion range l * seg
        let mut xs: Vec<u64> = Vec::new();
        if nn > 0 {
            let mut targets = vec![0u128, 1, seg as u128 - 1, seg as u128, nn - 1, nn.saturating_sub(2), nn.saturating_sub(seg as u128), nn.saturating_sub(seg as u128 + 1)];
            targets.retain(|&t| t < nn);
            targets.sort();
            targets.dedup();
            for t in targets {
                // smallest and largest x with floor(x * nn / 2^64) == t
                let lo = ((t << 64) + nn - 1) / nn;
                let hi = ((((t + 1) << 64) + nn - 1) / nn).saturating_sub(1);
                for x in [lo, hi, lo.saturating_sub(1), hi + 1] {
                    xs.push(x.min(u64::MAX as u128) as u64);
                }
            }
        }
        // 5. sort-key boundaries: floor(x * l / 2^64) and floor((x >> 32) * l / 2^32)
        if l > 0 {
            let mut ks = vec![1u128, (l / 2) as u128, l as u128 - 1, l as u128];
            ks.sort();
            ks.dedup();
            for k in ks {
                let b = ((k << 64) + l as u128 - 1) / l as u128;
                for x in [b, b.saturating_sub(1), b + 1] {
                    xs.push(x.min(u64::MAX as u128) as u64);
                }
                let b32 = ((k << 32) + l as u128 - 1) / l as u128;
                for x in [b32, b32.saturating_sub(1), b32 + 1] {
                    let h = x.min(u32::MAX as u128) as u64;
                    xs.push(h << 32);
                    xs.push(h << 32 | 0xffff_ffff);
                }
            }
        }
        xs.push(u64::MAX);
        xs.push(0);
        xs.sort();
        xs.dedup();
        for &x in &xs {
            if S::WORDS == 2 {
                for r in [0, u64::MAX, rng.random()] {
                    out.push(S::make(x, r));
                    out.push(S::make(r, x));
                    // FullSigs rotates the shard bits away before inverting
                    out.push(S::make(x.rotate_right(hb), r));
                    out.push(S::make(x.rotate_left(hb), r));
                }
                out.push(S::make(x, x));
            } else {
                out.push(S::make(x, 0));
                out.push(S::make(x | low_mask(lg), 0));
                out.push(S::make(x | low_mask(2 * lg), 0));
                out.push(S::make(x & !low_mask(2 * lg), 0));
            }
        }
    }
    out
}

fn random_word(rng: &mut SmallRng) -> u64 {
    match rng.random_range(0..20) {
        0 => rng.random::<u64>() & rng.random::<u64>() & rng.random::<u64>(),
        1 => rng.random::<u64>() | rng.random::<u64>() | rng.random::<u64>(),
        2 => rng.random::<u64>() >> rng.random_range(0..64),
        3 => rng.random::<u64>() << rng.random_range(0..64),
        4 => !(rng.random::<u64>() >> rng.random_range(0..64)),
        _ => rng.random(),
    }
}

// ---------------------------------------------------------------------------
// the monitor

struct Finding {
    op: &'static str,
    msg: &'static str,
    detail: String,
}

#[inline(always)]
fn judge<S: SigT, E: ShardEdge<S, 3>>(su: &SetUp<E>, sig: S) -> Result<(), Box<Finding>> {
    let e = &su.e;
    let nv = su.nv;
    let sh = e.shard(sig);
    let top = if su.hb == 0 { 0 } else { (sig.w0() >> (64 - su.hb)) as usize };
    let store = sig.high_bits(su.hb, (1u64 << su.hb) - 1) as usize;
    let ed = e.edge(sig);
    let ls = e.local_sig(sig);
    let le = e.local_edge(ls);
    let sk = e.sort_key(sig);
    let fail = |op: &'static str, msg: &'static str| -> Result<(), Box<Finding>> {
        Err(Box::new(Finding {
            op,
            msg,
            detail: format!(
                "{}: sig = {}: shard() = {}, top {} bits = {}, Sig::high_bits = {}, edge() = {:?}, local_sig() = {:?}, local_edge(local_sig()) = {:?}, sort_key() = {}; {}",
                msg,
                sig.show(),
                sh,
                su.hb,
                top,
                store,
                ed,
                ls,
                le,
                sk,
                su.show()
            ),
        }))
    };
    if sh != store || sh != top {
        return fail("shard", "shard() differs from the high bits the signature store uses");
    }
    if sh >= su.ns {
        return fail("shard", "shard() is not below num_shards()");
    }
    let base = sh * nv;
    let total = nv * su.ns;
    for i in 0..3 {
        if ed[i] >= total {
            return fail("edge", "edge() has a vertex outside the num_vertices() x num_shards() array");
        }
        if ed[i] < base || ed[i] >= base + nv {
            return fail("edge", "edge() has a vertex outside the slice of shard(sig)");
        }
        if le[i] >= nv {
            return fail("local_edge", "local_edge() has a vertex not below num_vertices()");
        }
        if ed[i] != le[i] + base {
            return fail("edge_vs_local_edge", "edge() is not local_edge(local_sig()) shifted by the shard base");
        }
    }
    if ed[0] == ed[1] || ed[0] == ed[2] || ed[1] == ed[2] {
        return fail("edge", "edge() vertices are not pairwise distinct");
    }
    if le[0] == le[1] || le[0] == le[2] || le[1] == le[2] {
        return fail("local_edge", "local_edge() vertices are not pairwise distinct");
    }
    if sk >= su.nsk {
        return fail("sort_key", "sort_key() is not below num_sort_keys()");
    }
    Ok(())
}

/// Judges all signatures; a panic inside the edge computations of a reachable
/// set-up is a violation. Returns the number of signatures judged.
fn judge_all<S: SigT, E: ShardEdge<S, 3>>(c: &mut Case, su: &SetUp<E>, sigs: &[S]) -> u64 {
    let mut i = 0;
    let mut fails = 0;
    let mut judged = 0u64;
    while i < sigs.len() && fails < 6 {
        let cur = Cell::new(i);
        let r = catch(|| {
            for j in i..sigs.len() {
                cur.set(j);
                if let Err(f) = judge(su, sigs[j]) {
                    return Some(f);
                }
            }
            None
        });
        let j = cur.get();
        match r {
            Ok(None) => {
                judged += (sigs.len() - i) as u64;
                break;
            }
            Ok(Some(f)) => {
                c.fail(f.op, "mismatch", f.msg, &f.detail);
            }
            Err(msg) => {
                c.fail(
                    "edge_computation",
                    "panic",
                    &msg,
                    &format!("panic `{}` while computing shard/edge/local_edge/sort_key of sig = {}; {}", msg, sigs[j].show(), su.show()),
                );
            }
        }
        judged += (j + 1 - i) as u64;
        fails += 1;
        i = j + 1;
    }
    c.tick(judged * 8);
    judged
}

struct Counters {
    unreachable: Cell<u64>,
    reachable: Cell<u64>,
    sigs: Cell<u64>,
}

/// One case: the set-ups for (variant, n, eps) with each of the given maximum
/// shard choices (only one set-up when there is a single shard).
#[allow(clippy::too_many_arguments)]
fn run_typed<S: SigT, E: ShardEdge<S, 3>>(
    c: &mut Case,
    variant: &'static str,
    n: usize,
    eps: f64,
    choices: &[Ms],
    pre: Option<(usize, f64)>,
    nrand: usize,
    cnt: &Counters,
) {
    let mut cells: Vec<String> = Vec::new();
    let mut shown: Vec<String> = Vec::new();
    let mut last_max_shard = None;
    for &ms in choices {
        let su: SetUp<E> = match set_up::<S, E>(c, variant, n, eps, ms, pre) {
            Outcome::Ready(su) => su,
            Outcome::Unreachable => {
                cnt.unreachable.set(cnt.unreachable.get() + 1);
                shown.push(format!("{}: set_up_shards({}, {:e}); set_up_graphs({}, {:?}) => capacity assertion (not reachable)", variant, n, eps, n, ms));
                continue;
            }
            Outcome::Failed => continue,
        };
        if last_max_shard == Some(su.max_shard) {
            continue; // same set-up as the previous choice (single shard)
        }
        last_max_shard = Some(su.max_shard);
        let mut sigs: Vec<S> = structured_sigs(&su, c.rng());
        for _ in 0..nrand {
            let (a, b) = (random_word(c.rng()), random_word(c.rng()));
            sigs.push(S::make(a, b));
        }
        let judged = judge_all(c, &su, &sigs);
        cnt.reachable.set(cnt.reachable.get() + 1);
        cnt.sigs.set(cnt.sigs.get() + judged);
        cells.push(su.cell());
        shown.push(format!("{} [{} structured + {} random signatures]", su.show(), sigs.len() - nrand, nrand));
    }
    if cells.is_empty() {
        c.set_cell(format!("{}|not-reachable", variant));
    } else {
        c.nontrivial();
        c.set_cell(cells.join(";"));
    }
    c.describe(|| shown.join(" || "));
}

#[allow(clippy::too_many_arguments)]
fn do_case(ctx: &mut Ctx, v: usize, stratum: &str, n: usize, eps: f64, choices: &[Ms], pre: Option<(usize, f64)>, nrand: usize, cnt: &Counters) {
    let variant = VARIANTS[v];
    ctx.case(variant, stratum, "edge_mapping", |c| match v {
        0 => run_typed::<[u64; 2], FuseLge3Shards>(c, variant, n, eps, choices, pre, nrand, cnt),
        1 => run_typed::<[u64; 2], FuseLge3FullSigs>(c, variant, n, eps, choices, pre, nrand, cnt),
        2 => run_typed::<[u64; 2], FuseLge3NoShards>(c, variant, n, eps, choices, pre, nrand, cnt),
        _ => run_typed::<[u64; 1], FuseLge3NoShards>(c, variant, n, eps, choices, pre, nrand, cnt),
    });
}

const EPS: [f64; 4] = [1e-4, 1e-3, 1e-2, 1e-1];

fn main() {
    let mut ctx = Ctx::from_args("C16");
    ctx.set_hang_limit(300);
    let cnt = Counters { unreachable: Cell::new(0), reachable: Cell::new(0), sigs: Cell::new(0) };

    // 1. every small n (single shard: the maximum shard is n)
    let small_max = ctx.scale(200, 2000, 20_000);
    let nrand_small = ctx.scale(200, 4000, 10_000);
    for n in 0..=small_max {
        for v in 0..4 {
            // every third n is first set up for a different (large or small) expected number of keys
            let pre = match (n + v) % 6 {
                0 => Some((1_000_000_000usize, 1e-2)),
                3 => Some((n / 2 + 7, 1e-3)),
                _ => None,
            };
            do_case(&mut ctx, v, "n=small(every n)", n, EPS[(n + v) % 4], &[Ms::Lo], pre, nrand_small, &cnt);
        }
    }

    // 2. powers of two +-1 and regime boundaries +-1
    let nrand_big = ctx.scale(200, 10_000, 100_000);
    let mut pow2: Vec<usize> = Vec::new();
    for k in 11..=40u32 {
        let p = 1usize << k;
        pow2.extend([p - 1, p, p + 1]);
    }
    let mut bounds: Vec<usize> = Vec::new();
    {
        let mut base: Vec<usize> = vec![
            100,
            2001,
            50_000,
            100_000,   // 2 * HALF_MAX_LIN_SHARD_SIZE: NoShards leaves the linear regime, Shards starts sharding
            760_000,
            800_000,   // MAX_LIN_SIZE
            5_000_000, // MIN_FUSE_SHARD / 2
            10_000_000,
            20_000_000,
            3_886_848_231, // about 2^32 / 1.105: capacity of 32-bit vertices without sharding
            3_800_000_000,
            4_000_000_000,
            100_000_000,
            1_000_000_000,
            10_000_000_000,
            100_000_000_000,
            1_000_000_000_000,
        ];
        // the number of shards changes at HALF_MAX_LIN_SHARD_SIZE * 2^j and MIN_FUSE_SHARD * 2^j
        for j in 1..=4 {
            base.push(50_000usize << j);
        }
        for j in 1..=16 {
            let x = 10_000_000usize << j;
            if x <= 1_000_000_000_000 {
                base.push(x);
            }
        }
        base.sort();
        base.dedup();
        for b in base {
            bounds.extend([b - 1, b, b + 1]);
        }
        bounds.retain(|&x| x <= 1_000_000_000_001);
    }
    let all3 = [Ms::Lo, Ms::Mid, Ms::Hi];
    for (stratum, list) in [("n=2^k+-1", &pow2), ("n=regime-boundary+-1", &bounds)] {
        for (i, &n) in list.iter().enumerate() {
            for v in 0..4 {
                let pre = if (i + v) % 5 == 0 { Some((n / 3 + 1, 1e-3)) } else { None };
                if v < 2 {
                    for &eps in &EPS {
                        do_case(&mut ctx, v, &format!("{}/eps={:e}", stratum, eps), n, eps, &all3, pre, nrand_big, &cnt);
                    }
                    // (only where the graphs are sized for lazy Gaussian elimination: above 800 000 keys the
                    // logic documents, and asserts, that a shard holds more than 100 000 keys)
                    if (100_000..=800_000).contains(&n) {
                        do_case(&mut ctx, v, &format!("{}/max-shard-below-average", stratum), n, EPS[i % 4], &[Ms::Small(i), Ms::Small(i + 1), Ms::Small(i + 2)], pre, nrand_big, &cnt);
                    }
                } else {
                    // no sharding: eps and the maximum shard are ignored
                    do_case(&mut ctx, v, stratum, n, EPS[i % 4], &[Ms::Lo], pre, nrand_big, &cnt);
                }
            }
        }
    }

    // 3. random rounds
    let rounds = ctx.scale(50, 200_000, 1_500_000);
    let nrand_rounds = ctx.scale(100, 3000, 60_000);
    let mut rng = ctx.rng(16);
    for _ in 0..rounds {
        let n = match rng.random_range(0..10) {
            0 => rng.random_range(0..3000usize),
            1 => rng.random_range(90_000..900_000usize),
            2 => rng.random_range(9_000_000..45_000_000usize),
            _ => {
                // log-uniform up to 10^12
                let x: f64 = rng.random_range(0.0..12.0);
                (10f64.powf(x) as usize).min(1_000_000_000_000)
            }
        };
        let eps = if rng.random_bool(0.5) { EPS[rng.random_range(0..4)] } else { 10f64.powf(rng.random_range(-4.0..-1.0)) };
        let v = rng.random_range(0..4);
        let pre = if rng.random_bool(0.25) {
            let x: f64 = rng.random_range(0.0..12.0);
            Some((10f64.powf(x) as usize, EPS[rng.random_range(0..4)]))
        } else {
            None
        };
        do_case(&mut ctx, v, "n=random", n, eps, &[Ms::Rand, Ms::Rand], pre, nrand_rounds, &cnt);
        if ctx.out_of_time() {
            break;
        }
    }
    ctx.note("setups_not_reachable(capacity assertion)", &cnt.unreachable.get().to_string());
    ctx.note("setups_judged", &cnt.reachable.get().to_string());
    ctx.note("signatures_judged", &cnt.sigs.get().to_string());
    ctx.finish();
}
