//! suxmon: runtime monitors for vigna/sux-rs (see /verif/DESIGN.md).
pub mod gen;
pub mod obs;
