"""Per-property configuration of the monitors (builds per tier, shard counts,
hang policy, evidence texts). Read by ./check."""

COMMON_ASSUME = [
    "the oracle (reference model in /verif/harness) is correct",
    "rustc/std UB pre-condition checks, ASan, Miri report every violation they are documented to report on the paths executed",
    "only the executions listed in this file were observed; nothing is claimed about inputs that were not run",
]

def P(level, rule, quick, thorough, **kw):
    d = dict(level=level, rule=rule, quick=quick, thorough=thorough, assumptions=COMMON_ASSUME + kw.pop("assume", []))
    d.update(kw)
    return d

PROPS = {}

# properties deliberately not claimed (id -> reason); ids missing from PROPS are
# listed automatically as "not built yet"
NOT_APPLICABLE = {}
# properties whose monitors have been validated (silent on the tree, sensitive to
# seeded changes) and are therefore claimed in MANIFEST.json
CLAIMED = ["C%02d" % i for i in range(1, 21)]
HOOK_COMMITS = ["09c5f91"]


# one file per property under propsd/ (each executes `PROPS["Cnn"] = P(...)`)
import glob as _glob, os as _os
for _f in sorted(_glob.glob(_os.path.join(_os.path.dirname(_os.path.abspath(__file__)), "propsd", "C*.py"))):
    exec(compile(open(_f).read(), _f, "exec"))
